#!/usr/bin/env python3
# Writes seeded/<id>-5/meta.json from a sweep summary (seeded/sweep_round5.log) and the notes below.
import json, sys
notes = {
 "C01": ("headers", "the re-selection of the best branch on a side-branch extension is guarded by height (previousBranch.Height() >= longest.Height()) instead of work: a shorter side branch extended with a heavier header becomes the most-work chain and is not reported"),
 "C05": (".", "synchronizeBlocks ends the round only for non-aborted completions: after a reorg while a request is pending (10 s orphan check aborts it) the remaining blocks of the old branch collected during the walk back are still requested"),
 "C06": (".", "GetTxRequests tests 'recently requested' against FirstSeen instead of LastRequested: after the timeout every remaining announcer polled in the same retry round gets the txid, several requests outstanding at once; needs >= 3 announcers and two polls back to back"),
 "C07": ("headers", "the branch update on a side-branch extension is sent only when the new branch has strictly more work, but repo.longest is still switched on a tie that Branches.Longest() resolves to the earlier-listed parent branch: the reorg back to the parent on equal work is announced as a single header that does not attach"),
 "C08": ("headers", "fork depth measured from the new header's height instead of its parent's: a fork whose parent is exactly MaxBranchDepth+1 below the best height is accepted instead of refused (with MaxBranchDepth 0 a sibling of the tip)"),
 "C09": ("headers", "Branch.Connect records every header after the first of a re-hung branch one height too low in heightsMap: needs a reorg, then Clean, with a third bystander side branch of >= 2 headers; HashHeight/CheckHeader/GetHeader/PreviousHash are then off by one for it"),
 "C10": ("headers", "Branch.Truncate starts the height counter of the orphaned tail at the first header's height: after a reorg that orphans >= 2 headers and a Clean, the tail's headers report height-1 and a grand-child branch hanging off the tail is dropped"),
 "C11": ("headers", "Branch.Link walks the already linked branches newest first: a newer sibling 'finds' the fork point through the common parent and becomes the restored branch's parent; shows only when the higher restored side branch is later extended past the main chain"),
 "C12": ("headers", "saveBranches rewrites the index after each branch file listing only the branches written so far: a crash right after the first incremental index write drops the unconsolidated best fork, Load reports less work than the last completed Save"),
 "C16": (".", "removeDownloader matches by downloader ID, which is never assigned (all zero): with two concurrent downloads of one block and the second failing first, the active first downloader leaves the registry, is never cancelled, and the list does not return to empty"),
}
hist = json.load(open(sys.argv[2])) if len(sys.argv) > 2 else {}
sweep = {}
for line in open(sys.argv[1]):
    parts = line.split()
    if len(parts) >= 2 and parts[0].endswith("-5") and parts[1].startswith("exit="):
        sweep[parts[0][:-2]] = (parts[1], parts[2:])
for pid, (pkg, needs) in notes.items():
    rc, labels = sweep.get(pid, ("exit=?", []))
    code = rc.split("=")[1]
    meta = {
     "property": pid, "round": 5, "demo_package_dir": pkg, "needs_to_manifest": needs,
     "confirmed": {"commands": [f"tools/confirm_seed.sh /verif/seeded/{pid}-5 {pkg}"],
       "result": "in a scratch worktree of /repo HEAD: demo passes without the patch, fails with it; go test ./headers/ passes with it; root package: only Test_Handshake (known, needs network) fails"},
     "detection": {"command": f"tools/seedtest.sh /verif/seeded/{pid}-5/patch.diff {pid}", "exit": int(code) if code.isdigit() else None,
       "caught_by": ", ".join(l for l in labels if ':' in l), "history": hist.get(pid, "caught by the checks as they were")},
     "origin": "written by an independent sub-agent that was given only the property text (with the anchored mechanisms), a list of the four earlier ideas to avoid, and a scratch worktree (fifth round)",
    }
    json.dump(meta, open(f"/verif/seeded/{pid}-5/meta.json", "w"), indent=1)
print("written", len(notes))
