#!/bin/sh
# usage: tools/seedsweep.sh [seed dir names...] ; runs every stored seeded change against its property's quick check
# (sequentially: each is applied to /repo and reverted) and prints one summary line per change.
cd /verif
[ $# -eq 0 ] && set -- $(ls -d seeded/*/ | xargs -n1 basename)
for s in "$@"; do
  id=${s%%-*}
  if grep -q '"superseded"' seeded/$s/meta.json 2>/dev/null; then echo "$s superseded (see meta.json)"; continue; fi
  out=$(timeout 2400 tools/seedtest.sh /verif/seeded/$s/patch.diff $id 2>&1)
  git -C /repo checkout -- . 2>/dev/null
  rc=$(echo "$out" | grep -o "exit=[0-9]*" | head -1)
  labels=$(echo "$out" | grep "^  run=" | sed -E 's/^  run=([^ ]*) kind=([^ ]*) label=([^ ]*).*/\1:\3/' | sort -u | head -4 | tr '\n' ' ')
  echo "$s $rc $labels"
done
