#!/bin/sh
# usage: tools/confirm_seed.sh <seed dir with patch.diff demo_test.go> <package dir relative to repo (. or headers)>
# Confirms in a scratch worktree of /repo HEAD: demo passes without the patch, fails with it, existing tests pass with it.
SEED="$1"; PKG="${2:-headers}"
WT=$(mktemp -d /tmp/confirm.XXXXXX)
export GOFLAGS=-mod=mod GOPROXY=off GOSUMDB=off GOTOOLCHAIN=local
git -C /repo worktree add -q --detach "$WT" HEAD || exit 2
cd "$WT" || exit 2
cp "$SEED/demo_test.go" "$PKG/zz_seed_demo_test.go"
NAME=$(grep -o "func Test_Seeded_[A-Za-z0-9_]*" "$SEED/demo_test.go" | head -1 | sed 's/func //')
echo "demo test: $NAME (package dir $PKG)"
if go test -vet=off -count=1 -run "^$NAME\$" "./$PKG" >/tmp/confirm_out.txt 2>&1; then echo "WITHOUT patch: demo PASSES (ok)"; else echo "WITHOUT patch: demo FAILS (bad)"; tail -5 /tmp/confirm_out.txt; fi
if git apply "$SEED/patch.diff"; then
  if go test -vet=off -count=1 -run "^$NAME\$" "./$PKG" >/tmp/confirm_out.txt 2>&1; then echo "WITH patch: demo PASSES (bad)"; else echo "WITH patch: demo FAILS (ok)"; fi
  rm "$PKG/zz_seed_demo_test.go"
  go test -vet=off -count=1 ./headers/ 2>&1 | grep -v "^{" | tail -1
  go test -vet=off -count=1 -json . 2>/dev/null | grep -E '"Action":"fail"' | grep -o '"Test":"[^"]*"' | sort -u | tr '\n' ' '; echo "(failing root tests; Test_Handshake expected)"
else
  echo "PATCH DOES NOT APPLY"
fi
cd /; git -C /repo worktree remove --force "$WT"
