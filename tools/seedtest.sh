#!/bin/sh
# usage: tools/seedtest.sh <patch.diff> <property id>... ; applies the patch to /repo, runs the quick checks, reverts.
PATCH="$1"; shift
cd /repo || exit 2
if [ -n "$(git status --porcelain)" ]; then echo "repo not clean"; exit 2; fi
git apply "$PATCH" || { echo "patch does not apply"; exit 2; }
export GOFLAGS=-mod=mod GOPROXY=off GOSUMDB=off GOTOOLCHAIN=local
if ! go build ./... ; then echo "BUILD FAILS"; git checkout -- .; exit 2; fi
cd /verif
for id in "$@"; do
  out=$(bin/check "$id" quick -out /tmp/seed_evidence_$id.json 2>&1); rc=$?
  echo "== $id exit=$rc"
  echo "$out" | grep -E "^VIOLATION|^  run=|^INCONCLUSIVE|^ENCODING|^VACUOUS|^OK" | head -8
done
git -C /repo checkout -- .
