#!/usr/bin/env python3
# Writes seeded/<id>-2/meta.json from the sweep summary (tools/seedsweep.sh output) and the notes below.
import json, sys
notes = {
 "C01": ("headers", "NewBranch aliases the fork point's accumulated work (work = last.AccumulatedWork, then Add in place): needs a fork; then the parent header's recorded work and every comparison through it are wrong", "caught by the checks as they were"),
 "C02": ("headers", "same one-line aliasing in NewBranch, presented against C02: the fork point's accumulated work grows by the new header's work, so chain work stops being the sum of per-header work", "missed at first (the PoW runs looked at one header at a time); the bits-rule run now also requires that a submission never changes the target required of the existing chain"),
 "C03": (".", "handleHeadersVerify scans past headers the repository does not recognise until one verifies: needs a reply whose first header is unknown and a later one is the split header", "missed at first (replies had one header); node harness with up to 2 headers per reply and the real VerifyHeader added"),
 "C04": (".", "announced tx count only checked when the merkle root mismatches: needs a block whose delivered prefix already has the committed root (count announced too high)", "caught by the checks as they were"),
 "C05": (".", "blockSyncNeeded cleared after the walk back: needs a new tip arriving while a round is walking back, and nothing afterwards", "missed at first; trigger during the walk back (hook in the harness's header repository) and idle-completeness assertion added"),
 "C06": (".", "AddTx looks up under a read lock and inserts under a later write lock: needs two peers delivering the same unannounced tx concurrently", "first exit 2; concurrent harness got an unsolicited-delivery case, schedule counterexamples reported with trust_symbolic"),
 "C07": ("headers", "IntersectHash shortcut returns the header before this branch's first header when the other branch merely contains it: needs a reorg between sibling/cousin branches", "caught by the checks as they were"),
 "C08": ("headers", "the already-known check looks only at the best chain: a re-submitted side-branch header is processed again (duplicate branch / different verdict)", "caught by the checks as they were"),
 "C09": ("headers", "Branch.Save only appends what is new: after a reorg inside a saved branch the stored file keeps orphaned headers; needs Save, reorg, Save, Load", "caught by the checks as they were (C09 scaled / C11 resave)"),
 "C10": ("headers", "consolidate skips re-connecting a branch whose first header is in the new main branch: needs a side branch forking from the consolidated part, then Clean", "caught by the checks as they were"),
 "C11": ("headers", "load() picks repo.longest after the parent-height sort: needs two equally heavy side branches created in decreasing fork-height order, Save, Load", "missed (twin runs assume tie-free histories, constructed states created forks in increasing height order); late-fork constructed state and tie-allowing resave run added"),
 "C12": ("headers", "consolidate removes the old best branch's file while the stored index still lists it: needs a fork saved, then a Clean that consolidates, crash before the next Save", "missed at quick bounds (needs 2 operations before the Save); already-saved constructed states added to the crash harness"),
 "C13": (".", "peers announcing a user agent starting '/Bitcoin SV:' are accepted without the chain proof: needs that exact 12-byte prefix in the version message", "missed (handshake goroutine was not encoded, version fields were concrete); handshake harness with symbolic version fields added - the solver derives the prefix"),
 "C14": (".", "handleInventory stops reading after TxRequestCount (default 10000) requested txs: needs an inv with more fresh txids than that", "missed (inv lists had <= 3 entries, default configuration); configuration knob made symbolic over {1,2,default} and a run with lists at the protocol maxima added"),
 "C15": (".", "MessageChannel.Add releases the lock before sending: needs Stop closing the queue between the open check and the send (send on closed channel in an unrecovered goroutine)", "missed (no harness stopped a node while a handler replies); stop-race and whole-session harnesses under the scheduler added"),
 "C16": (".", "Stop after Cancel signals Started/Complete again when the download had not started: needs Cancel then connection stop", "caught by the checks as they were"),
 "C17": ("headers", "Branch.Save returns early when the stored file is at least as long: after MarkHeaderInvalid trims a saved branch the stale file survives; needs Save, mark, Save, Load", "missed at quick bounds (4 operations from genesis); already-saved constructed states added"),
 "C18": ("headers", "load() indexes header hashes before dropping branches below the prune height: a proof for a dropped side-branch header verifies with isLongest=true; needs a deep side branch, Save, Load (ported to the repaired load(); the agent's original patch is kept beside it)", "missed (proof harness had a 3-header repository, never reloaded); history harness over a scaled, pruned, reloaded repository added"),
 "C19": ("headers", "removeDuplicateHashes compares with the previous entry only: needs a split entry whose hash repeats non-adjacently", "caught by the checks as they were"),
 "C20": (".", "Load resets the address index only after the file header is parsed: needs Load into a repository in use from missing/short/unknown-version storage, then Add/UpdateScore of a formerly known address", "missed (Load was only exercised on fresh repositories); in-place Load operation added to the history harness"),
}
sweep = {}
for line in open(sys.argv[1]):
    parts = line.split()
    if len(parts) >= 2 and parts[0].endswith("-2"):
        sweep[parts[0][:-2]] = (parts[1], parts[2:])
for pid, (pkg, needs, hist) in notes.items():
    rc, labels = sweep.get(pid, ("exit=?", []))
    meta = {
     "property": pid, "round": 2, "demo_package_dir": pkg, "needs_to_manifest": needs,
     "confirmed": {"commands": [f"tools/confirm_seed.sh seeded/{pid}-2 {pkg}"],
       "result": "in a scratch worktree of /repo HEAD: demo passes without the patch, fails with it; go test ./headers/ passes with it; root package: only Test_Handshake (known, needs network) fails"},
     "detection": {"command": f"tools/seedtest.sh /verif/seeded/{pid}-2/patch.diff {pid}", "exit": int(rc.split("=")[1]) if rc.split("=")[1].isdigit() else None,
       "caught_by": ", ".join(labels), "history": hist},
     "origin": "written by an independent sub-agent that was given only the property text and a scratch worktree (second round: asked for a different site and mechanism than the first change)",
    }
    json.dump(meta, open(f"/verif/seeded/{pid}-2/meta.json", "w"), indent=1)
print("written", len(notes))
