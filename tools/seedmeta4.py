#!/usr/bin/env python3
# Writes seeded/<id>-4/meta.json from a sweep summary and the notes below.
import json, sys
notes = {
 "C01": ("headers", "the already-known test looks only at the parent's branch chain: the first header of a fork submitted again creates a twin branch; Save then overwrites the fork's file and Load reports the lighter chain", "missed (histories never re-submitted a known header, and the tip oracle compared with the heaviest header the repository still knows); re-submission operation added, the reference is every accepted header"),
 "C02": ("headers", "median-of-three compare-swaps reordered to a stable order: on timestamp ties another block than the network's is selected", "caught by the checks as they were"),
 "C03": ("headers", "the known-parent split loop breaks at the first split above the header's height although the table is sorted highest first: the BTC split header offered on its known parent is accepted", "missed (the constructed state only existed at the BCH/BSV split height); the same state one below the BTC split height added"),
 "C04": (".", "merkleProofs[i].TxID = &txid aliases the go 1.18 loop variable: retained proofs name the last relevant txid", "caught by the checks as they were"),
 "C05": (".", "a cached next-height ends the walk back early: after a reorg that replaces already processed blocks the new blocks below the cached height are never requested", "missed (no run reorganised after the reader was in sync); pipeline-reorg run added"),
 "C06": (".", "a failed SaveTx puts the transaction back on the processing queue: ProcessTx runs twice", "missed (the saver never failed); save-failure run added"),
 "C07": ("headers", "the automatic clean runs before the best-branch decision: after an unconsolidated reorg the stale branch pointer suppresses the announcement at a multiple of the auto-clean period", "caught by the checks as they were (scaled-pruned run with auto-clean period 4)"),
 "C08": ("headers", "the required-split check is skipped once the best chain has passed the split height: another header at that height is accepted on a fork", "missed by the C08 check (its histories never reach a split height); split-verdict run on the constructed split states added"),
 "C09": ("headers", "the height index entry is written before the fork-depth refusal: the refused hash is known to HashHeight/CheckHeader/GetHeader", "missed (fork depth limit was 1000, refused headers were not looked up); MaxBranchDepth 1 in the rich run, refused headers must be unknown"),
 "C10": ("headers", "clean prunes before it writes the main chain files: headers between the old and new prune height are lost when no earlier clean wrote them", "caught by the checks as they were (scaled-pruned)"),
 "C11": ("headers", "saveMainBranch keeps the partial first file without its version byte: records shift by one byte; needs a pruned repository that is extended and saved again, then loaded", "caught by the checks as they were (scaled-pruned)"),
 "C12": ("headers", "migrate returns an error for current-format files when no branch index exists: a crash during the first Save or Clean leaves storage that no longer loads", "missed (the crash always followed a completed Save); the completed Save is now optional"),
 "C13": (".", "a second version message counts as the peer's verack", "caught by the checks as they were (handshake run)"),
 "C14": (".", "inv and tx handlers are registered without a tx manager; handleInventory's nil-manager branch returns without consuming the payload", "caught by the checks as they were"),
 "C15": (".", "handleInventory sizes the getdata list from the declared count after converting it to int: counts >= 2^63 give makeslice cap out of range", "missed at quick bounds (2 payload bytes); counts run with every varint encoding added"),
 "C16": (".", "HandleBlock no longer sends Complete when it finds the download cancelled: Run waits for its timeout", "caught by the checks as they were"),
 "C17": ("headers", "the invalid-hash check moved below the new-branch path: a marked header re-submitted as the first header of a fork is accepted", "caught by the checks as they were"),
 "C18": ("headers", "same index-before-refusal change as C09-4, aimed at proofs: a proof tied to a refused header verifies", "would have been missed; the history run got a refused fork header while C09-4 was being worked on, before this change was tried"),
 "C19": ("headers", "the locator loop is guarded by height > 0: at tip height 1 the locator has no best-chain hash", "caught by the checks as they were"),
 "C20": (".", "Save is skipped unless something changed, and UpdateTime does not mark a change: last-seen times are not persisted", "caught by the checks as they were"),
}
sweep = {}
for line in open(sys.argv[1]):
    parts = line.split()
    if len(parts) >= 2 and parts[0].endswith("-4") and parts[1].startswith("exit="):
        sweep[parts[0][:-2]] = (parts[1], parts[2:])
for pid, (pkg, needs, hist) in notes.items():
    rc, labels = sweep.get(pid, ("exit=?", []))
    code = rc.split("=")[1]
    meta = {
     "property": pid, "round": 4, "demo_package_dir": pkg, "needs_to_manifest": needs,
     "confirmed": {"commands": [f"tools/confirm_seed.sh /verif/seeded/{pid}-4 {pkg}"],
       "result": "in a scratch worktree of /repo HEAD: demo passes without the patch, fails with it; go test ./headers/ passes with it; root package: only Test_Handshake (known, needs network) fails"},
     "detection": {"command": f"tools/seedtest.sh /verif/seeded/{pid}-4/patch.diff {pid}", "exit": int(code) if code.isdigit() else None,
       "caught_by": ", ".join(l for l in labels if ':' in l), "history": hist},
     "origin": "written by an independent sub-agent that was given only the property text (with the anchored mechanisms) and a scratch worktree (fourth round: asked to avoid the three earlier ideas and to go through the statement clause by clause)",
    }
    json.dump(meta, open(f"/verif/seeded/{pid}-4/meta.json", "w"), indent=1)
print("written", len(notes))
