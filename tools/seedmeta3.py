#!/usr/bin/env python3
# Writes seeded/<id>-3/meta.json from the sweep summary (tools/seedsweep.sh output) and the notes below.
import json, sys
notes = {
 "C01": ("headers", "Branch.Save returns early when the stored file is at least as long (same idea as the first C11 change, aimed at C01): needs a saved chain, a heavier fork that is not longer, Clean, Save, Load - then the lighter old chain is reported", "missed by the C01 check (3+ operations after a saved state); saved-state runs with a fixed Clean/Save/Load tail added"),
 "C02": ("headers", "validBits lets exponent 1-2 encodings through again (\"follow the reference decoding\"): the dependency's ConvertToDifficulty panics for one-byte targets", "caught by the checks as they were"),
 "C03": (".", "handleHeadersVerify returns errors.Wrap(nil) for a non-zero tx count in the reply: the malformed reply is swallowed, the peer stays connected and a later headers message verifies it", "missed (replies always carried tx count 0); tx-count bytes symbolic, an error returned to the read loop counts as disconnect"),
 "C04": (".", "HandleBlock compares the requested hash with itself: a self-consistent block with another header is processed and recorded under the requested hash", "caught by the checks as they were"),
 "C05": (".", "BlockDownloader.Run returns nil for a cancelled download: the manager marks the block complete although the peer dropped mid-block, the synchroniser skips it for good", "missed by C05 (its block source was a harness stand-in); pipeline runs with the real header repository, BlockManager and BlockDownloaders added; the same change is also reported by the C16 manager run after peers that drop mid-block were added"),
 "C06": (".", "handleInventory truncates and re-queues the same getdata message once it is full: needs one inv with more than 50000 requestable txids", "missed (inventories had <= 3 entries); big-inv run with 50003 entries added"),
 "C07": ("headers", "sendBranchUpdate iterates channels outside and heights inside with a shared counter: only the first subscriber gets the reorg headers; needs two subscribers and a reorg", "caught by the checks as they were"),
 "C08": ("headers", "the height index entry is written before the fork-depth refusal: a refused header is afterwards known to HashHeight/CheckHeader/GetHeader", "missed (after a refusal only the headers known before were observed); the refused header must now be unknown to every lookup"),
 "C09": ("headers", "loadHistoricalHashHeights always starts one file lower: best-chain headers between the file boundary and the lowest header in memory are unknown by hash after Load", "caught by the checks as they were (scaled run)"),
 "C10": ("headers", "saveMainBranch keeps one byte too little of the partial first file: records above the retained boundary are shifted; visible only after a later Clean prunes past them", "missed: the constructed pruned state carried a low side branch, and the repository keeps everything above the lowest fork point in memory, so nothing was ever served from a partial file; runs without that branch and a second set of scaled constants added"),
 "C11": ("headers", "loadHistoricalHashHeights returns early whenever the lowest header in memory lies in file 0: pruned best-chain hashes are missing from the index after Load", "missed: with 2 headers per file only genesis sits below such a boundary, and the constructed tip was always on a side branch; second scale with 3 headers per file, symbolic chain length and symbolic recent-side length added"),
 "C12": ("headers", "load returns an error instead of skipping a listed branch that no longer links: needs 3 branches saved, a Clean that consolidates a reorg, crash before the next Save", "caught by the checks as they were (saved-state runs)"),
 "C13": (".", "the inv handler is registered when the handshake completes instead of after verification", "caught by the checks as they were (handshake run)"),
 "C14": (".", "handleBlock wraps the requested block's reader in a bufio.Reader limited to the payload length although the 80 header bytes are already consumed: it reads into the next message", "caught by the checks as they were"),
 "C15": ("headers", "validBits refuses short encodings only when they shift down to zero: a peer's headers message with such bits panics in an unrecovered goroutine", "caught by the checks as they were"),
 "C16": (".", "cancelDownloaders iterates the live downloader slice: a downloader removed during the loop shifts the rest and one download is never cancelled; needs >= 3 concurrent downloads", "missed (manager run had <= 2 concurrent downloads, and exploring every schedule of 4 was out of reach); delay-bounded scheduling added to the engine and a many-downloads run"),
 "C17": ("headers", "Branches.Trim drops descendants only two nesting levels deep: a branch of a branch of a branch of the marked header survives", "caught by the checks as they were"),
 "C18": ("headers", "isInLongest answers true when the best chain has no header at that height: a proof for a header of a taller but lighter side branch reports isLongest", "missed (proof histories had unit weights); heavy-tip state with a taller, lighter side branch added"),
 "C19": ("headers", "branch base entries are sorted by the branch's tip height: after an unconsolidated reorg genesis sorts near the top of the locator", "missed (side branches were always lighter than the best chain); reorg run added, oracle uses the real tip height"),
 "C20": (".", "Save writes to storage after releasing the lock: a stalled older Save overwrites a newer one", "missed (concurrency was not explored for the address book); concurrent-callers run added, the harness store synchronises its accesses like the real back ends"),
}
sweep = {}
for line in open(sys.argv[1]):
    parts = line.split()
    if len(parts) >= 2 and parts[0].endswith("-3"):
        sweep[parts[0][:-2]] = (parts[1], parts[2:])
for pid, (pkg, needs, hist) in notes.items():
    rc, labels = sweep.get(pid, ("exit=?", []))
    code = rc.split("=")[1]
    meta = {
     "property": pid, "round": 3, "demo_package_dir": pkg, "needs_to_manifest": needs,
     "confirmed": {"commands": [f"tools/confirm_seed.sh /verif/seeded/{pid}-3 {pkg}"],
       "result": "in a scratch worktree of /repo HEAD: demo passes without the patch, fails with it; go test ./headers/ passes with it; root package: only Test_Handshake (known, needs network) fails"},
     "detection": {"command": f"tools/seedtest.sh /verif/seeded/{pid}-3/patch.diff {pid}", "exit": int(code) if code.isdigit() else None,
       "caught_by": ", ".join(labels), "history": hist},
     "origin": "written by an independent sub-agent that was given only the property text and a scratch worktree (third round: asked to avoid both earlier ideas and to aim at parts of the statement they do not touch)",
    }
    json.dump(meta, open(f"/verif/seeded/{pid}-3/meta.json", "w"), indent=1)
print("written", len(notes))
