#!/bin/sh
# usage: tools/collect5.sh <id> <pkgdir>  ; copies a round-5 sub-agent result into seeded/<id>-5 and confirms it
ID="$1"; PKG="$2"; D=/verif/seeded/$ID-5
mkdir -p "$D"
cp /tmp/s5_$ID.patch "$D/patch.diff"
cp /tmp/s5_$ID/$PKG/zz_seed_demo_test.go "$D/demo_test.go"
/verif/tools/confirm_seed.sh "$D" "$PKG"
