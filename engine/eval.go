package main

// Concrete evaluation of terms under a model (values for variables), used to skip solver queries
// whose answer the cached model already witnesses. Only Bool and BitVec<=64 are evaluated;
// anything else reports ok=false and the caller falls back to the solver.

type evalCtx struct {
	m    map[int]uint64 // var id -> value (absent: unconstrained, treated as 0)
	memo map[int]uint64
}

func (e *evalCtx) eval(t *Term) (uint64, bool) {
	if t.op == OConst {
		if t.bc != nil {
			return 0, false
		}
		return t.c, true
	}
	if v, ok := e.memo[t.id]; ok {
		return v, true
	}
	if t.sort.K == SInt || (t.sort.K == SBV && t.sort.W > 64) {
		return 0, false
	}
	var r uint64
	switch t.op {
	case OVar:
		r = e.m[t.id]
	case ONot:
		a, ok := e.eval(t.args[0])
		if !ok {
			return 0, false
		}
		r = a ^ 1
	case OAnd, OOr:
		a, ok := e.eval(t.args[0])
		if !ok {
			return 0, false
		}
		b, ok := e.eval(t.args[1])
		if !ok {
			return 0, false
		}
		if t.op == OAnd {
			r = a & b
		} else {
			r = a | b
		}
	case OIte:
		c, ok := e.eval(t.args[0])
		if !ok {
			return 0, false
		}
		if c == 1 {
			r, ok = e.eval(t.args[1])
		} else {
			r, ok = e.eval(t.args[2])
		}
		if !ok {
			return 0, false
		}
	case OEq:
		if t.args[0].sort.K == SInt || t.args[0].sort.W > 64 {
			return 0, false
		}
		a, ok := e.eval(t.args[0])
		if !ok {
			return 0, false
		}
		b, ok := e.eval(t.args[1])
		if !ok {
			return 0, false
		}
		if a == b {
			r = 1
		}
	case OBvAdd, OBvSub, OBvMul, OBvUdiv, OBvUrem, OBvSdiv, OBvSrem, OBvAnd, OBvOr, OBvXor, OBvShl, OBvLshr, OBvAshr:
		a, ok := e.eval(t.args[0])
		if !ok {
			return 0, false
		}
		b, ok := e.eval(t.args[1])
		if !ok {
			return 0, false
		}
		w := t.sort.W
		switch t.op {
		case OBvAdd:
			r = a + b
		case OBvSub:
			r = a - b
		case OBvMul:
			r = a * b
		case OBvUdiv:
			if b == 0 {
				r = mask(w)
			} else {
				r = a / b
			}
		case OBvUrem:
			if b == 0 {
				r = a
			} else {
				r = a % b
			}
		case OBvSdiv, OBvSrem:
			sa, sb := signExt(a, w), signExt(b, w)
			if sb == 0 {
				return 0, false
			}
			if sb == -1 {
				if t.op == OBvSdiv {
					r = uint64(-sa)
				} else {
					r = 0
				}
			} else if t.op == OBvSdiv {
				r = uint64(sa / sb)
			} else {
				r = uint64(sa % sb)
			}
		case OBvAnd:
			r = a & b
		case OBvOr:
			r = a | b
		case OBvXor:
			r = a ^ b
		case OBvShl:
			if b >= uint64(w) {
				r = 0
			} else {
				r = a << b
			}
		case OBvLshr:
			if b >= uint64(w) {
				r = 0
			} else {
				r = a >> b
			}
		case OBvAshr:
			if b >= uint64(w) {
				b = uint64(w - 1)
			}
			r = uint64(signExt(a, w) >> b)
		}
		r &= mask(w)
	case OBvNot:
		a, ok := e.eval(t.args[0])
		if !ok {
			return 0, false
		}
		r = ^a & mask(t.sort.W)
	case OBvNeg:
		a, ok := e.eval(t.args[0])
		if !ok {
			return 0, false
		}
		r = -a & mask(t.sort.W)
	case OBvUlt, OBvUle, OBvSlt, OBvSle:
		if t.args[0].sort.W > 64 {
			return 0, false
		}
		a, ok := e.eval(t.args[0])
		if !ok {
			return 0, false
		}
		b, ok := e.eval(t.args[1])
		if !ok {
			return 0, false
		}
		w := t.args[0].sort.W
		var c bool
		switch t.op {
		case OBvUlt:
			c = a < b
		case OBvUle:
			c = a <= b
		case OBvSlt:
			c = signExt(a, w) < signExt(b, w)
		case OBvSle:
			c = signExt(a, w) <= signExt(b, w)
		}
		if c {
			r = 1
		}
	case OConcat:
		a, ok := e.eval(t.args[0])
		if !ok {
			return 0, false
		}
		b, ok := e.eval(t.args[1])
		if !ok {
			return 0, false
		}
		r = a<<uint(t.args[1].sort.W) | b
	case OExtract:
		if t.args[0].sort.W > 64 {
			return 0, false
		}
		a, ok := e.eval(t.args[0])
		if !ok {
			return 0, false
		}
		r = (a >> uint(t.q)) & mask(t.p-t.q+1)
	case OZext:
		a, ok := e.eval(t.args[0])
		if !ok {
			return 0, false
		}
		r = a
	case OSext:
		a, ok := e.eval(t.args[0])
		if !ok {
			return 0, false
		}
		r = uint64(signExt(a, t.args[0].sort.W)) & mask(t.sort.W)
	default:
		return 0, false
	}
	e.memo[t.id] = r
	return r, true
}
