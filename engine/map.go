package main

// omap: insertion-ordered map. Keys that are fully concrete are indexed by a canonical string;
// a lookup involving symbolic leaves forks on equality with each candidate entry.

import (
	"fmt"
	"go/types"
	"strings"
)

type mentry struct {
	key  value
	val  value
	ks   string // canonical string when key is concrete
	conc bool
	dead bool
}

type omap struct {
	keyType types.Type
	entries []*mentry
	idx     map[string]*mentry
	nsym    int // number of live entries with symbolic keys
	n       int
}

func makeOmap(kt types.Type) *omap {
	return &omap{keyType: kt, idx: map[string]*mentry{}}
}

func (m *omap) live() []*mentry {
	if m == nil {
		return nil
	}
	out := make([]*mentry, 0, m.n)
	for _, e := range m.entries {
		if !e.dead {
			out = append(out, e)
		}
	}
	return out
}

func (m *omap) length() int {
	if m == nil {
		return 0
	}
	return m.n
}

// keyString returns a canonical encoding of a fully concrete key.
func keyString(sb *strings.Builder, v value) bool {
	switch v := v.(type) {
	case bool, int, int8, int16, int32, int64, uint, uint16, uint32, uint64, uintptr, float32, float64:
		fmt.Fprintf(sb, "%T:%v;", v, v)
	case uint8:
		sb.WriteByte(v)
	case string:
		fmt.Fprintf(sb, "s%d:%s;", len(v), v)
	case *value:
		fmt.Fprintf(sb, "p%p;", v)
	case *channel:
		fmt.Fprintf(sb, "c%p;", v)
	case array:
		sb.WriteByte('[')
		for _, e := range v {
			if !keyString(sb, e) {
				return false
			}
		}
		sb.WriteByte(']')
	case structure:
		sb.WriteByte('{')
		for _, e := range v {
			if !keyString(sb, e) {
				return false
			}
		}
		sb.WriteByte('}')
	case iface:
		if v.t == nil {
			sb.WriteString("nil;")
		} else {
			fmt.Fprintf(sb, "i(%s)", v.t.String())
			if !keyString(sb, v.v) {
				return false
			}
		}
	case symstring:
		sb.WriteString("S")
		for _, e := range v.b {
			if b, ok := e.(uint8); ok {
				sb.WriteByte(b)
			} else {
				return false
			}
		}
		// a fully concrete symstring is canonically a plain string
	default:
		return false
	}
	return true
}

func concreteKey(v value) (string, bool) {
	if s, ok := v.(symstring); ok {
		if cs, ok := s.concrete(); ok {
			v = cs
		}
	}
	var sb strings.Builder
	if keyString(&sb, v) {
		return sb.String(), true
	}
	return "", false
}

// find returns the entry whose key equals k, forking on symbolic equalities.
func (m *omap) find(i *interpreter, k value) *mentry {
	if m == nil {
		return nil
	}
	ks, conc := concreteKey(k)
	if conc && m.nsym == 0 {
		return m.idx[ks]
	}
	if conc {
		if e := m.idx[ks]; e != nil {
			return e
		}
	}
	for _, e := range m.entries {
		if e.dead {
			continue
		}
		if conc && e.conc {
			continue // differs (checked through idx)
		}
		eq := i.eqValue(m.keyType, e.key, k)
		if i.truth(eq) {
			return e
		}
	}
	return nil
}

func (m *omap) lookup(i *interpreter, k value) (value, bool) {
	if e := m.find(i, k); e != nil {
		return e.val, true
	}
	return nil, false
}

func (m *omap) insert(i *interpreter, k, v value) {
	if e := m.find(i, k); e != nil {
		e.val = v
		return
	}
	ks, conc := concreteKey(k)
	e := &mentry{key: k, val: v, ks: ks, conc: conc}
	m.entries = append(m.entries, e)
	if conc {
		m.idx[ks] = e
	} else {
		m.nsym++
	}
	m.n++
}

func (m *omap) remove(i *interpreter, k value) {
	e := m.find(i, k)
	if e == nil {
		return
	}
	e.dead = true
	if e.conc {
		delete(m.idx, e.ks)
	} else {
		m.nsym--
	}
	m.n--
	// compact occasionally
	if len(m.entries) > 32 && m.n < len(m.entries)/2 {
		m.entries = m.live()
	}
}

type omapIter struct {
	es  []*mentry
	pos int
}

func (it *omapIter) next() tuple {
	for it.pos < len(it.es) {
		e := it.es[it.pos]
		it.pos++
		if e.dead {
			continue // deleted during iteration
		}
		return tuple{true, e.key, e.val}
	}
	return tuple{false, nil, nil}
}
