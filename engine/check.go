package main

import (
	"encoding/json"
	"flag"
	"fmt"
	"os"
	"os/exec"
	"path/filepath"
	"runtime/pprof"
	"sort"
	"strconv"
	"strings"
	"time"
)

// CheckFile is /verif/checks/<id>.json.
type CheckFile struct {
	Property    string     `json:"property"`
	Level       string     `json:"level"`
	Assumptions []string   `json:"assumptions"`
	TrustedBase []string   `json:"trusted_base"`
	Runs        []RunEntry `json:"runs"`
}

type RunEntry struct {
	CheckConfig
	Name     string                 `json:"name"`
	Scale    map[string]int64       `json:"scale"` // pruneDepth, headersPerFile, autoClean
	Quick    map[string]interface{} `json:"quick"`
	Thorough map[string]interface{} `json:"thorough"`
	Skip     []string               `json:"skip_tiers"`
	Bounds   string                 `json:"bounds"` // human-readable statement of the bound
}

type KnownFinding struct {
	Property     string `json:"property"`
	Harness      string `json:"harness,omitempty"`
	Kind         string `json:"kind"`
	Label        string `json:"label"`
	SiteContains string `json:"site_contains,omitempty"`
	MsgContains  string `json:"msg_contains,omitempty"`
	Status       string `json:"status"` // known | fixed
	Description  string `json:"description"`
	Commit       string `json:"commit,omitempty"`
}

func (k *KnownFinding) matches(c *Candidate) bool {
	if k.Status != "known" {
		return false
	}
	if k.Property != c.Property || k.Kind != c.Kind || k.Label != c.Label {
		return false
	}
	if k.Harness != "" && k.Harness != c.Harness {
		return false
	}
	if k.SiteContains != "" && !strings.Contains(c.Site, k.SiteContains) {
		return false
	}
	if k.MsgContains != "" && !strings.Contains(c.Msg, k.MsgContains) {
		return false
	}
	return true
}

func applyOverrides(cfg *CheckConfig, ov map[string]interface{}) error {
	if ov == nil {
		return nil
	}
	b, _ := json.Marshal(ov)
	// params are merged, everything else overwritten
	var tmp struct {
		Params map[string]int64 `json:"params"`
	}
	json.Unmarshal(b, &tmp)
	old := cfg.Params
	if err := json.Unmarshal(b, cfg); err != nil {
		return err
	}
	if tmp.Params != nil {
		merged := map[string]int64{}
		for k, v := range old {
			merged[k] = v
		}
		for k, v := range tmp.Params {
			merged[k] = v
		}
		cfg.Params = merged
	}
	return nil
}

type RunReport struct {
	Name        string
	Cfg         CheckConfig
	Agg         *Aggregate
	Wall        time.Duration
	Violations  []*Candidate
	NativeFound []*Candidate
	Known       map[string]int
	Replayed    int
	ReplayOK    int
	Validated   int
	ValidMism   []string
	Vacuous     []string
	Bounds      string
	Skipped     bool
	Cross       []map[string]interface{}
}

func cmdCheck(args []string) int {
	fs := flag.NewFlagSet("check", flag.ExitOnError)
	cfgPath := fs.String("config", "", "check file")
	tier := fs.String("tier", "quick", "quick|thorough")
	repo := fs.String("repo", "/repo", "repository directory")
	verif := fs.String("verif", "/verif", "verif directory")
	only := fs.String("run", "", "only this run name")
	workers := fs.Int("workers", 16, "parallel workers")
	verbose := fs.Bool("v", false, "verbose")
	noReplay := fs.Bool("noreplay", false, "skip native replay/validation (debugging only; exit code 2)")
	qlog := fs.String("querylog", "", "write worker 0's solver dialogue to this file")
	outPath := fs.String("out", "", "evidence file (default <verif>/evidence/<id>.json)")
	cpuprof := fs.String("cpuprofile", "", "write cpu profile")
	fs.Parse(args)
	if *cpuprof != "" {
		f, _ := os.Create(*cpuprof)
		pprof.StartCPUProfile(f)
		defer pprof.StopCPUProfile()
	}

	start := time.Now()
	seed := int64(0)
	if s := os.Getenv("VERIF_SEED"); s != "" {
		seed, _ = strconv.ParseInt(s, 10, 64)
	}
	raw, err := os.ReadFile(*cfgPath)
	if err != nil {
		fmt.Fprintln(os.Stderr, "cannot read check file:", err)
		return 2
	}
	var cf CheckFile
	if err := json.Unmarshal(raw, &cf); err != nil {
		fmt.Fprintln(os.Stderr, "bad check file:", err)
		return 2
	}
	var known []KnownFinding
	if kb, err := os.ReadFile(filepath.Join(*verif, "known_findings.json")); err == nil {
		if err := json.Unmarshal(kb, &known); err != nil {
			fmt.Fprintln(os.Stderr, "bad known_findings.json:", err)
			return 2
		}
	}
	if *outPath == "" {
		*outPath = filepath.Join(*verif, "evidence", cf.Property+".json")
	}
	os.Remove(*outPath)

	// group runs by scale so each distinct overlay loads once
	type group struct {
		scale map[string]int64
		runs  []*RunEntry
	}
	var groups []*group
	for k := range cf.Runs {
		r := &cf.Runs[k]
		if *only != "" && r.Name != *only {
			continue
		}
		skip := false
		for _, t := range r.Skip {
			if t == *tier {
				skip = true
			}
		}
		if skip {
			continue
		}
		key := fmt.Sprint(r.Scale)
		var g *group
		for _, x := range groups {
			if fmt.Sprint(x.scale) == key {
				g = x
			}
		}
		if g == nil {
			g = &group{scale: r.Scale}
			groups = append(groups, g)
		}
		g.runs = append(g.runs, r)
	}

	var reports []*RunReport
	exit := 0
	for _, g := range groups {
		overlay := map[string][]byte{}
		if err := readOverlayDir(filepath.Join(*verif, "harness/headers"), filepath.Join(*repo, "headers"), overlay); err != nil {
			fmt.Fprintln(os.Stderr, "overlay:", err)
			return 2
		}
		if err := readOverlayDir(filepath.Join(*verif, "harness/reader"), *repo, overlay); err != nil {
			fmt.Fprintln(os.Stderr, "overlay:", err)
			return 2
		}
		scaleNote := ""
		if len(g.scale) > 0 {
			src, note, err := scaleHeadersSource(filepath.Join(*repo, "headers/headers.go"), g.scale)
			if err != nil {
				// anchors missing after a refactor: reduced claim, not an alarm
				fmt.Printf("NOTE: constant scaling not applicable (%v); scaled runs skipped\n", err)
				for _, r := range g.runs {
					reports = append(reports, &RunReport{Name: r.Name, Skipped: true, Bounds: "skipped: " + err.Error()})
				}
				continue
			}
			overlay[filepath.Join(*repo, "headers/headers.go")] = src
			scaleNote = note
		}
		t0 := time.Now()
		prog, err := loadProgram(*repo, overlay, []string{"./..."})
		if err != nil {
			fmt.Fprintln(os.Stderr, "load failed:", err)
			return 2
		}
		if *verbose {
			fmt.Printf("loaded program in %s %s\n", fmtDur(time.Since(t0)), scaleNote)
		}
		for _, r := range g.runs {
			cfg := r.CheckConfig
			cfg.Property = cf.Property
			ov := r.Quick
			if *tier == "thorough" {
				ov = r.Thorough
			}
			if err := applyOverrides(&cfg, ov); err != nil {
				fmt.Fprintln(os.Stderr, "bad overrides:", err)
				return 2
			}
			cfg.defaults()
			if cfg.BudgetS == 0 {
				cfg.BudgetS = 300
				if *tier == "thorough" {
					cfg.BudgetS = 3600
				}
			}
			if *qlog != "" {
				f, _ := os.Create(*qlog)
				defer f.Close()
				cfg.queryLog = f
			}
			rep := runOne(prog, &cfg, r, *workers, *verbose, seed)
			rep.Bounds = r.Bounds
			if scaleNote != "" {
				rep.Bounds += " [" + scaleNote + "]"
			}
			reports = append(reports, rep)

			// classify candidates
			rep.Known = map[string]int{}
			var fresh []*Candidate
			keys := make([]string, 0, len(rep.Agg.Candidates))
			for k := range rep.Agg.Candidates {
				keys = append(keys, k)
			}
			sort.Strings(keys)
			for _, k := range keys {
				cs := rep.Agg.Candidates[k]
				matched := false
				for ki := range known {
					if known[ki].matches(cs[0]) {
						rep.Known[known[ki].Description] += rep.Agg.CandCount[k]
						matched = true
						break
					}
				}
				if !matched {
					fresh = append(fresh, cs[0])
				}
			}
			for d, n := range rep.Known {
				fmt.Printf("KNOWN-FINDING: property=%s %s (run %s, %d paths)\n", cf.Property, d, r.Name, n)
			}
			// native replay of fresh candidates; translator validation of passing samples
			if !*noReplay {
				rp := newReplayer(*repo, *verif, g.scale, overlay)
				nativeValidate(rp, rep, fresh, cf.Property, *verbose)
				rp.cleanup()
			} else if len(fresh) > 0 {
				for _, c := range fresh {
					fmt.Printf("CANDIDATE (not replayed) kind=%s label=%s site=%s msg=%s\n", c.Kind, c.Label, c.Site, c.Msg)
					if *verbose {
						for _, s := range c.Stack {
							fmt.Println("    ", s)
						}
						fmt.Println("     model:", c.Nondets, "trace:", c.Trace)
					}
				}
				exit = 2
			}
			// violations witnessed only natively (during translator validation)
			seenNative := map[string]bool{}
			for _, c := range rep.NativeFound {
				if seenNative[c.Key()] {
					continue
				}
				seenNative[c.Key()] = true
				isKnown := false
				for ki := range known {
					if known[ki].matches(c) {
						isKnown = true
					}
				}
				if !isKnown {
					rep.Violations = append(rep.Violations, c)
				}
			}
			for _, c := range rep.Violations {
				path := writeReplayFile(*verif, c)
				fmt.Printf("VIOLATION property=%s replay=%s\n", cf.Property, path)
				fmt.Printf("  run=%s kind=%s label=%s msg=%s site=%s\n", r.Name, c.Kind, c.Label, c.Msg, c.Site)
				exit = 1
			}
			// vacuity and inconclusive accounting
			for _, m := range cfg.MustReach {
				if rep.Agg.Reached[m] == 0 {
					rep.Vacuous = append(rep.Vacuous, m)
				}
			}
			if len(rep.Vacuous) > 0 {
				fmt.Printf("VACUOUS run=%s never reached: %v\n", r.Name, rep.Vacuous)
				if exit == 0 {
					exit = 2
				}
			}
			if len(rep.Agg.Problems) > 0 {
				for _, p := range rep.Agg.Problems {
					fmt.Printf("INCONCLUSIVE run=%s %s (x%d)\n", r.Name, firstLine(p), rep.Agg.problemSeen[p])
					if *verbose {
						fmt.Println(p)
					}
				}
				if exit == 0 {
					exit = 2
				}
			}
			if len(rep.ValidMism) > 0 {
				for _, m := range rep.ValidMism {
					fmt.Printf("ENCODING-MISMATCH run=%s %s\n", r.Name, m)
				}
				if exit == 0 {
					exit = 2
				}
			}
			if rep.Agg.SolverErrors > 0 {
				fmt.Printf("INCONCLUSIVE run=%s solver reported %d error lines\n", r.Name, rep.Agg.SolverErrors)
				if exit == 0 {
					exit = 2
				}
			}
			fmt.Printf("run %-28s paths=%d decisions=%d asserts=%d/%d queries=%d solver=%s wall=%s status=%v%s\n",
				r.Name, rep.Agg.Paths, rep.Agg.Decisions, rep.Agg.Discharged, rep.Agg.Asserts, rep.Agg.Queries,
				fmtDur(rep.Agg.SolverTime), fmtDur(rep.Wall), rep.Agg.ByStatus, truncNote(rep.Agg.Truncated))
			// the same exploration decided by other solvers: every verdict that shaped the path tree must agree
			for _, other := range cfg.CrossSolvers {
				if other == cfg.Solver {
					continue
				}
				cfg2 := cfg
				cfg2.Solver = other
				rep2 := runOne(prog, &cfg2, r, *workers, false, seed)
				same := exploreSummary(rep.Agg) == exploreSummary(rep2.Agg)
				rep.Cross = append(rep.Cross, map[string]interface{}{
					"solver": solverDescription(other), "agrees": same, "summary": exploreSummary(rep2.Agg),
					"solver_queries": rep2.Agg.Queries, "solver_time_s": rep2.Agg.SolverTime.Seconds(), "wall_s": rep2.Wall.Seconds(),
				})
				if same && rep2.Agg.SolverErrors == 0 && len(rep2.Agg.Problems) == 0 {
					fmt.Printf("cross-solver run=%s %s agrees with %s (%s)\n", r.Name, other, cfg.Solver, exploreSummary(rep2.Agg))
				} else {
					fmt.Printf("INCONCLUSIVE run=%s solvers disagree: %s: %s | %s: %s problems=%v\n", r.Name, cfg.Solver, exploreSummary(rep.Agg), other, exploreSummary(rep2.Agg), rep2.Agg.Problems)
					if exit == 0 {
						exit = 2
					}
				}
			}
		}
	}
	writeEvidence(*outPath, &cf, *tier, seed, reports, time.Since(start), exit)
	if exit == 0 {
		fmt.Printf("OK property=%s tier=%s wall=%s\n", cf.Property, *tier, fmtDur(time.Since(start)))
	}
	return exit
}

func truncNote(t bool) string {
	if t {
		return " (TRUNCATED: budget reached, not exhaustive)"
	}
	return ""
}

func firstLine(s string) string {
	if k := strings.IndexByte(s, '\n'); k >= 0 {
		return s[:k]
	}
	return s
}

func runOne(prog *Program, cfg *CheckConfig, r *RunEntry, workers int, verbose bool, seed int64) *RunReport {
	e := newEngine(cfg, prog)
	e.seed = seed
	if cfg.BudgetS > 0 {
		e.deadline = time.Now().Add(time.Duration(cfg.BudgetS) * time.Second)
	}
	t0 := time.Now()
	e.run(workers)
	rep := &RunReport{Name: r.Name, Cfg: *cfg, Agg: &e.results, Wall: time.Since(t0)}
	return rep
}

func writeReplayFile(verif string, c *Candidate) string {
	dir := filepath.Join(verif, "replays", c.Property)
	os.MkdirAll(dir, 0o755)
	name := fmt.Sprintf("%s-%s-%s.json", c.Harness, sanitize(c.Kind), sanitize(c.Label))
	if len(name) > 120 {
		name = name[:120] + ".json"
	}
	path := filepath.Join(dir, name)
	b, _ := json.MarshalIndent(c, "", " ")
	os.WriteFile(path, b, 0o644)
	return path
}

// ---------- evidence ----------

func writeEvidence(path string, cf *CheckFile, tier string, seed int64, reports []*RunReport, wall time.Duration, exit int) {
	os.MkdirAll(filepath.Dir(path), 0o755)
	states, transitions, validated, obligations, discharged, queries := 0, 0, 0, 0, 0, 0
	var solverTime time.Duration
	exhaustive := true
	var samples []interface{}
	var runs []map[string]interface{}
	funcs := map[string]int{}
	violations := 0
	knownTotal := 0
	solversUsed := map[string]bool{}
	for _, r := range reports {
		if r.Skipped {
			runs = append(runs, map[string]interface{}{"name": r.Name, "skipped": r.Bounds})
			exhaustive = false
			continue
		}
		a := r.Agg
		solversUsed[solverDescription(r.Cfg.Solver)] = true
		states += a.Paths
		transitions += a.Decisions
		validated += r.Validated + r.ReplayOK
		obligations += a.Asserts
		discharged += a.Discharged
		queries += a.Queries
		solverTime += a.SolverTime
		if a.Truncated || len(a.Problems) > 0 {
			exhaustive = false
		}
		violations += len(r.Violations)
		for _, n := range r.Known {
			knownTotal += n
		}
		for k, v := range a.Funcs {
			funcs[k] = v
		}
		for k, s := range a.Samples {
			if k < 3 {
				samples = append(samples, map[string]interface{}{"run": r.Name, "decision_trace": s.Trace, "model": s.Model, "observations": s.Observes})
			}
		}
		cands := map[string]int{}
		for k, n := range a.CandCount {
			cands[k] = n
		}
		runs = append(runs, map[string]interface{}{
			"name": r.Name, "harness": r.Cfg.Harness, "pkg": r.Cfg.Pkg, "bounds": r.Bounds, "params": r.Cfg.Params,
			"hash_mode": r.Cfg.HashMode, "preemption_bound": r.Cfg.Preemptions, "delay_bound": r.Cfg.DelayBound, "solver": solverDescription(r.Cfg.Solver),
			"paths": a.Paths, "paths_by_status": a.ByStatus, "symbolic_decisions": a.Decisions,
			"assertions_checked": a.Asserts, "assertions_discharged_unsat": a.Discharged,
			"solver_queries": a.Queries, "solver_time_s": a.SolverTime.Seconds(), "solver_unknown": a.Unknowns,
			"wall_s": r.Wall.Seconds(), "truncated_by_budget": a.Truncated, "max_trace_len": a.MaxTraceLen,
			"instructions_interpreted": a.Steps, "hash_inputs": a.HashInputs, "max_goroutines": a.MaxThreads,
			"reach_markers": a.Reached, "must_reach_missing": r.Vacuous, "problems": a.Problems,
			"candidate_paths_by_key": cands, "known_finding_paths": r.Known,
			"candidates_replayed_natively": r.Replayed, "candidates_reproduced": r.ReplayOK,
			"passing_paths_validated_natively": r.Validated, "native_mismatches": r.ValidMism,
			"cross_solver_runs": r.Cross,
		})
	}
	var interp, intr, stub []string
	for k, v := range funcs {
		switch v {
		case 0:
			interp = append(interp, k)
		case 1:
			intr = append(intr, k)
		default:
			stub = append(stub, k)
		}
	}
	sort.Strings(interp)
	sort.Strings(intr)
	sort.Strings(stub)
	if len(samples) == 0 {
		samples = append(samples, map[string]interface{}{"note": "no completed path sampled"})
	}
	level := cf.Level
	if level == "" {
		level = "model_checking"
	}
	ev := map[string]interface{}{
		"property_id": cf.Property,
		"tier":        tier,
		"seed":        seed,
		"level":       level,
		"coverage": map[string]interface{}{
			"states":                         states,
			"transitions":                    transitions,
			"traces_validated_against_impl":  validated,
			"samples":                        samples,
			"obligations":                    obligations,
			"discharged":                     discharged,
			"exhaustive":                     exhaustive && exit == 0,
			"explanation":                    "states = terminated paths of the bounded symbolic execution; transitions = symbolic decisions (branches, concretisations, scheduler choices) decided by the SMT solver; obligations = harness assertions turned into queries pc∧¬assert, discharged = answered unsat",
			"solver":                         solverList(solversUsed) + "; one long-lived solver process per worker (push/pop)",
			"solver_queries":                 queries,
			"solver_time_s":                  solverTime.Seconds(),
			"runs":                           runs,
			"functions_interpreted_from_ssa": interp,
			"functions_intrinsic":            intr,
			"functions_stubbed":              stub,
			"known_finding_paths":            knownTotal,
			"trusted_base":                   cf.TrustedBase,
		},
		"assumptions": cf.Assumptions,
		"wall_s":      wall.Seconds(),
		"violations":  violations,
	}
	b, _ := json.MarshalIndent(ev, "", " ")
	os.WriteFile(path, b, 0o644)
}

var solverDescCache = map[string]string{}

// solverDescription names the solver binary of a run with the version it reports.
func solverDescription(kind string) string {
	if kind == "" {
		kind = "z3-new"
	}
	if d, ok := solverDescCache[kind]; ok {
		return d
	}
	argv := solverArgv(kind)
	out, _ := exec.Command(argv[0], "--version").Output()
	line := strings.TrimSpace(strings.SplitN(string(out), "\n", 2)[0])
	d := argv[0]
	if line != "" {
		d += " (" + line + ")"
	}
	solverDescCache[kind] = d
	return d
}

func solverList(m map[string]bool) string {
	var l []string
	for k := range m {
		l = append(l, k)
	}
	sort.Strings(l)
	return strings.Join(l, ", ")
}

// exploreSummary is what two solvers must agree on: the shape of the explored path tree and the
// outcome of every assertion query.
func exploreSummary(a *Aggregate) string {
	keys := make([]string, 0, len(a.CandCount))
	for k := range a.CandCount {
		keys = append(keys, fmt.Sprintf("%s=%d", k, a.CandCount[k]))
	}
	sort.Strings(keys)
	st := make([]string, 0, len(a.ByStatus))
	for k, v := range a.ByStatus {
		st = append(st, fmt.Sprintf("%s:%d", k, v))
	}
	sort.Strings(st)
	return fmt.Sprintf("paths=%d decisions=%d asserts=%d/%d status=%v candidates=%v", a.Paths, a.Decisions, a.Discharged, a.Asserts, st, keys)
}
