package main

import (
	"fmt"
	"go/token"
	"io"
	"os"
	"regexp"
	"runtime/debug"
	"strings"
	"time"

	"golang.org/x/tools/go/ssa"
)

// CheckConfig is the configuration of one harness exploration.
type CheckConfig struct {
	Property             string           `json:"property"`
	Harness              string           `json:"harness"`   // function name
	Pkg                  string           `json:"pkg"`       // import path of the package holding the harness
	HashMode             string           `json:"hash_mode"` // token | uf
	Preemptions          int              `json:"preemptions"`
	ConcretizeLimit      int              `json:"concretize_limit"`
	MaxAllocBytes        int64            `json:"max_alloc_bytes"`
	StepLimit            int64            `json:"step_limit"`
	SolverTimeoutMs      int              `json:"solver_timeout_ms"`
	Solver               string           `json:"solver"`
	MaxPaths             int              `json:"max_paths"`
	SampleCount          int              `json:"sample_count"`
	ShufflePermutations  bool             `json:"shuffle_permutations"`
	BudgetS              int              `json:"budget_s"`
	MustReach            []string         `json:"must_reach"`
	Params               map[string]int64 `json:"params"`                 // harness parameters (read via verifParam)
	SkipNativeValidation string           `json:"skip_native_validation"` // reason; passing samples are not re-run natively
	TrustSymbolic        string           `json:"trust_symbolic"`         // reason why a counterexample that does not reproduce natively is still reported
	NativeTimeoutIsStall bool             `json:"native_timeout_is_stall"`
	VirtualHorizonS      int              `json:"virtual_horizon_s"` // stall detection horizon (virtual seconds)
	AllocEnumerate       int              `json:"alloc_enumerate"`   // symbolic allocation sizes up to this are enumerated
	Note                 string           `json:"note"`
	DelayBound           *int             `json:"delay_bound"`   // delay-bounded scheduling instead of the preemption bound (nil: off)
	CrossSolvers         []string         `json:"cross_solvers"` // the exploration is repeated with these solvers and must agree

	queryLog io.Writer
}

func (c *CheckConfig) defaults() {
	if c.HashMode == "" {
		c.HashMode = "token"
	}
	if c.ConcretizeLimit == 0 {
		c.ConcretizeLimit = 64
	}
	if c.MaxAllocBytes == 0 {
		c.MaxAllocBytes = 1 << 24
	}
	if c.StepLimit == 0 {
		c.StepLimit = 20_000_000
	}
	if c.SolverTimeoutMs == 0 {
		c.SolverTimeoutMs = 20000
	}
	if c.Solver == "" {
		c.Solver = "z3-new"
	}
	if c.AllocEnumerate == 0 {
		c.AllocEnumerate = 64
	}
	if c.SampleCount == 0 {
		c.SampleCount = 8
	}
}

var debugTiming = os.Getenv("SYMGO_TIMING") != ""

var obsRef = regexp.MustCompile(`\$(\d+)`)

func runPath(e *Engine, solver *Solver, item WorkItem) (res *PathResult, pending []WorkItem) {
	tPath := time.Now()
	solver.Reset()
	q0, t0 := solver.Queries, solver.SolveTime
	res = &PathResult{Reached: map[string]bool{}, Funcs: map[string]int{}}
	px := &PathCtx{
		eng: e, tc: newTermCtx(), solver: solver, prefix: item.Prefix, res: res,
		stepLimit: e.cfg.StepLimit, clock: 1_700_000_000 * 1e9, clock0: 1_700_000_000 * 1e9, quiesceHorizon: 1 << 62,
	}
	i := &interpreter{prog: e.prog, globals: map[*ssa.Global]*value{}, sizes: e.prog.sizes, px: px}
	i.runtimeErrorString = e.prog.byPath["runtime"].Type("errorString").Type()
	px.sched = newScheduler(px, i)
	px.interp = i

	pkg := e.prog.byPath[e.cfg.Pkg]
	if pkg == nil {
		res.Status, res.Msg = stEngineBug, "harness package not loaded: "+e.cfg.Pkg
		return res, nil
	}
	hfn := pkg.Func(e.cfg.Harness)
	if hfn == nil {
		res.Status, res.Msg = stEngineBug, "harness function not found: "+e.cfg.Harness
		return res, nil
	}

	s := px.sched
	mainG := s.spawn("main", func(g *gthread) {
		root := &frame{i: i, g: g, fn: e.prog.rootFn}
		tInit := time.Now()
		px.inInit = true
		i.protected(g, func() { i.call(root, token.NoPos, pkg.Func("init"), nil) })
		px.inInit = false
		if debugTiming {
			fmt.Printf("init %s steps=%d\n", time.Since(tInit), px.steps)
		}
		i.runGoroutine(g, token.NoPos, hfn, nil)
	})
	s.cur = mainG
	mainG.wake <- true
	<-s.endCh
	s.wg.Wait()

	res.Status, res.Msg = s.end.status, s.end.msg
	if res.Status == stEngineBug && len(res.Msg) > 4000 {
		res.Msg = res.Msg[:4000]
	}
	res.Trace = px.trace
	res.Steps = px.steps
	if res.Status == stOK && len(res.Candidates) == 0 && e.wantSample(px.trace) {
		func() {
			defer func() {
				if r := recover(); r != nil {
					res.Status, res.Msg = stEngineBug, fmt.Sprintf("model extraction: %v\n%s", r, debug.Stack())
				}
			}()
			r, m, obs := px.currentModelObs(nil)
			if r == Sat {
				res.Model = m
				res.Observes = obs
			}
		}()
	}
	if debugTiming {
		fmt.Printf("path total %s steps=%d queries=%d solver=%s\n", time.Since(tPath), px.steps, solver.Queries-q0, solver.SolveTime-t0)
	}
	res.Queries = solver.Queries - q0
	res.SolverTime = solver.SolveTime - t0
	return res, px.pending
}

// traceHash orders paths pseudo-randomly (seeded) so that the sampled paths are spread over the
// whole exploration instead of being the first ones found.
func (e *Engine) traceHash(tr []Decision) uint64 {
	h := uint64(1469598103934665603) ^ uint64(e.seed)*1099511628211
	for _, d := range tr {
		h ^= uint64(d.K)
		h *= 1099511628211
		h ^= uint64(d.V)
		h *= 1099511628211
	}
	return h
}

func (e *Engine) wantSample(tr []Decision) bool {
	h := e.traceHash(tr)
	e.mu.Lock()
	defer e.mu.Unlock()
	if len(e.results.Samples) < e.cfg.SampleCount {
		return true
	}
	return h < e.results.sampleMax
}

// substituteObs replaces $k placeholders by model values of observed terms.
func substituteObs(obs []string, vals []string) []string {
	out := make([]string, len(obs))
	for k, o := range obs {
		out[k] = obsRef.ReplaceAllStringFunc(o, func(m string) string {
			var idx int
			fmt.Sscanf(m[1:], "%d", &idx)
			if idx < len(vals) {
				return vals[idx]
			}
			return m
		})
	}
	return out
}

func fmtDur(d time.Duration) string { return fmt.Sprintf("%.2fs", d.Seconds()) }

var _ = strings.TrimSpace
