package main

import (
	"fmt"
	"go/token"
	"go/types"
	"math/big"
	"strings"
)

const opaquePrefix = "\x00opaque:"

func isOpaque(s string) bool { return strings.HasPrefix(s, opaquePrefix) }

// ---------- fmt ----------

// fmtArg converts an interpreter value to something the host fmt can print.
// ok=false means the value has symbolic content.
func (i *interpreter) fmtArg(fr *frame, v value) (interface{}, bool) {
	switch x := v.(type) {
	case iface:
		if x.t == nil {
			return nil, true
		}
		// error / Stringer
		for _, m := range []string{"Error", "String"} {
			if i.hasMethod(x.t, m) {
				sig := i.methodSig(x.t, m)
				if sig != nil && sig.Params().Len() == 0 && sig.Results().Len() == 1 {
					if b, ok := sig.Results().At(0).Type().Underlying().(*types.Basic); ok && b.Kind() == types.String {
						if p, isPtr := x.v.(*value); isPtr && p == nil {
							return "<nil>", true
						}
						s := i.invoke(fr, x, m)
						return i.fmtArg(fr, s)
					}
				}
			}
		}
		return i.fmtArg(fr, x.v)
	case sym:
		return nil, false
	case symstring:
		if s, ok := x.concrete(); ok {
			return s, true
		}
		return nil, false
	case string:
		if isOpaque(x) {
			return nil, false
		}
		return x, true
	case bool, int, int8, int16, int32, int64, uint, uint8, uint16, uint32, uint64, uintptr, float32, float64:
		return x, true
	case []value:
		// byte slices print as such
		out := make([]byte, len(x))
		for k, e := range x {
			b, ok := e.(uint8)
			if !ok {
				if _, isS := e.(sym); isS {
					return nil, false
				}
				return fmt.Sprintf("<slice len %d>", len(x)), true
			}
			out[k] = b
		}
		return out, true
	case array:
		out := make([]byte, len(x))
		for k, e := range x {
			b, ok := e.(uint8)
			if !ok {
				if _, isS := e.(sym); isS {
					return nil, false
				}
				return fmt.Sprintf("<array len %d>", len(x)), true
			}
			out[k] = b
		}
		return out, true
	case *value:
		if x == nil {
			return "<nil>", true
		}
		return "<ptr>", true
	case structure:
		return "<struct>", true
	case nil:
		return nil, true
	}
	return fmt.Sprintf("<%T>", v), true
}

func (i *interpreter) methodSig(t types.Type, name string) *types.Signature {
	ms := i.prog.ssa.MethodSets.MethodSet(t)
	for k := 0; k < ms.Len(); k++ {
		if ms.At(k).Obj().Name() == name {
			return ms.At(k).Type().(*types.Signature)
		}
	}
	return nil
}

func (i *interpreter) sprintf(fr *frame, format value, args []value) value {
	f, ok := format.(string)
	if !ok || isOpaque(f) {
		return i.opaque()
	}
	hostArgs := make([]interface{}, len(args))
	for k, a := range args {
		h, ok := i.fmtArg(fr, a)
		if !ok {
			return i.opaque()
		}
		hostArgs[k] = h
	}
	return fmt.Sprintf(f, hostArgs...)
}

func (i *interpreter) opaque() value {
	i.px.opaqueSeq++
	return fmt.Sprintf("%s%d", opaquePrefix, i.px.opaqueSeq)
}

func init() {
	reg("fmt.Sprintf", func(fr *frame, args []value) value {
		return fr.i.sprintf(fr, args[0], args[1].([]value))
	})
	reg("fmt.Errorf", func(fr *frame, args []value) value {
		return fr.i.newError(fr, fr.i.sprintf(fr, args[0], args[1].([]value)))
	})
	reg("fmt.Sprint", func(fr *frame, args []value) value {
		i := fr.i
		var host []interface{}
		for _, a := range args[0].([]value) {
			h, ok := i.fmtArg(fr, a)
			if !ok {
				return i.opaque()
			}
			host = append(host, h)
		}
		return fmt.Sprint(host...)
	})
	reg("fmt.Sprintln", func(fr *frame, args []value) value {
		i := fr.i
		var host []interface{}
		for _, a := range args[0].([]value) {
			h, ok := i.fmtArg(fr, a)
			if !ok {
				return i.opaque()
			}
			host = append(host, h)
		}
		return fmt.Sprintln(host...)
	})
	for _, n := range []string{"fmt.Printf", "fmt.Println", "fmt.Print"} {
		reg(n, func(fr *frame, args []value) value { return tuple{0, iface{}} })
	}
	writeTo := func(fr *frame, w value, s value) value {
		res := fr.i.invoke(fr, w.(iface), "Write", append([]value{}, strBytes(s)...)).(tuple)
		return res
	}
	reg("fmt.Fprintf", func(fr *frame, args []value) value {
		return writeTo(fr, args[0], fr.i.sprintf(fr, args[1], args[2].([]value)))
	})
	reg("fmt.Fprint", func(fr *frame, args []value) value {
		return writeTo(fr, args[0], intrinsics["fmt.Sprint"](fr, args[1:]))
	})
	reg("fmt.Fprintln", func(fr *frame, args []value) value {
		return writeTo(fr, args[0], intrinsics["fmt.Sprintln"](fr, args[1:]))
	})

	// ---------- encoding/binary ----------
	reg("encoding/binary.Read", func(fr *frame, args []value) value {
		i := fr.i
		r := args[0].(iface)
		little := isLittle(args[1].(iface))
		data := args[2].(iface)
		pt, ok := data.t.Underlying().(*types.Pointer)
		var target types.Type
		var cell *value
		var sl []value
		if ok {
			target = pt.Elem()
			cell = data.v.(*value)
		} else if st, ok := data.t.Underlying().(*types.Slice); ok {
			target = st
			sl = data.v.([]value)
		} else {
			return i.newError(fr, "binary.Read: invalid type "+data.t.String())
		}
		var n int
		if sl != nil {
			n = len(sl) * fixedSize(target.Underlying().(*types.Slice).Elem())
		} else {
			n = fixedSize(target)
		}
		if n < 0 {
			return i.newError(fr, "binary.Read: invalid type "+data.t.String())
		}
		buf := make([]value, n)
		for k := range buf {
			buf[k] = uint8(0)
		}
		res := i.call(fr, token.NoPos, i.fn("io", "ReadFull"), []value{r, buf}).(tuple)
		if err := res[1].(iface); err.t != nil {
			return err
		}
		pos := 0
		if sl != nil {
			et := target.Underlying().(*types.Slice).Elem()
			for k := range sl {
				sl[k] = i.decodeFixed(et, buf, &pos, little)
			}
		} else {
			store(target, cell, i.decodeFixed(target, buf, &pos, little))
		}
		return iface{}
	})
	reg("encoding/binary.Write", func(fr *frame, args []value) value {
		i := fr.i
		w := args[0].(iface)
		little := isLittle(args[1].(iface))
		data := args[2].(iface)
		t := data.t
		v := data.v
		if pt, ok := t.Underlying().(*types.Pointer); ok {
			t = pt.Elem()
			v = load(t, v.(*value))
		}
		var buf []value
		if st, ok := t.Underlying().(*types.Slice); ok {
			for _, e := range v.([]value) {
				if !i.encodeFixed(st.Elem(), e, &buf, little) {
					return i.newError(fr, "binary.Write: invalid type")
				}
			}
		} else if !i.encodeFixed(t, v, &buf, little) {
			return i.newError(fr, "binary.Write: some values are not fixed-sized in type "+data.t.String())
		}
		res := i.invoke(fr, w, "Write", buf).(tuple)
		return res[1]
	})
	reg("encoding/binary.Size", func(fr *frame, args []value) value {
		data := args[0].(iface)
		t := data.t
		if pt, ok := t.Underlying().(*types.Pointer); ok {
			t = pt.Elem()
		}
		if st, ok := t.Underlying().(*types.Slice); ok {
			return len(data.v.([]value)) * fixedSize(st.Elem())
		}
		return fixedSize(t)
	})
}

func isLittle(order iface) bool {
	return strings.Contains(strings.ToLower(order.t.String()), "little")
}

func fixedSize(t types.Type) int {
	switch u := t.Underlying().(type) {
	case *types.Basic:
		switch u.Kind() {
		case types.Bool, types.Int8, types.Uint8:
			return 1
		case types.Int16, types.Uint16:
			return 2
		case types.Int32, types.Uint32, types.Float32:
			return 4
		case types.Int64, types.Uint64, types.Float64:
			return 8
		}
		return -1
	case *types.Array:
		e := fixedSize(u.Elem())
		if e < 0 {
			return -1
		}
		return e * int(u.Len())
	case *types.Struct:
		n := 0
		for k := 0; k < u.NumFields(); k++ {
			e := fixedSize(u.Field(k).Type())
			if e < 0 {
				return -1
			}
			n += e
		}
		return n
	}
	return -1
}

func (i *interpreter) decodeFixed(t types.Type, buf []value, pos *int, little bool) value {
	switch u := t.Underlying().(type) {
	case *types.Basic:
		n := fixedSize(t)
		bs := buf[*pos : *pos+n]
		*pos += n
		if u.Kind() == types.Bool {
			return i.boolNot(i.eqValue(nil, bs[0], uint8(0)))
		}
		conc := allConcrete(bs)
		if conc {
			var v uint64
			for k := 0; k < n; k++ {
				var b uint8
				if little {
					b = bs[n-1-k].(uint8)
				} else {
					b = bs[k].(uint8)
				}
				v = v<<8 | uint64(b)
			}
			if u.Kind() == types.Float32 || u.Kind() == types.Float64 {
				i.px.abort(stUnsupported, "binary.Read of float")
			}
			if kindSigned(u.Kind()) {
				v = uint64(signExt(v, 8*n))
			}
			return mkInt(u.Kind(), v)
		}
		var t *Term
		for k := 0; k < n; k++ {
			var b value
			if little {
				b = bs[n-1-k]
			} else {
				b = bs[k]
			}
			bt := i.toTerm(b)
			if t == nil {
				t = bt
			} else {
				t = i.px.tc.Concat(t, bt)
			}
		}
		return mkSym(u.Kind(), t)
	case *types.Array:
		a := make(array, u.Len())
		for k := range a {
			a[k] = i.decodeFixed(u.Elem(), buf, pos, little)
		}
		return a
	case *types.Struct:
		s := make(structure, u.NumFields())
		for k := range s {
			s[k] = i.decodeFixed(u.Field(k).Type(), buf, pos, little)
		}
		return s
	}
	panic("decodeFixed: " + t.String())
}

func (i *interpreter) encodeFixed(t types.Type, v value, out *[]value, little bool) bool {
	switch u := t.Underlying().(type) {
	case *types.Basic:
		n := fixedSize(t)
		if n < 0 {
			return false
		}
		if u.Kind() == types.Bool {
			switch b := v.(type) {
			case bool:
				if b {
					*out = append(*out, uint8(1))
				} else {
					*out = append(*out, uint8(0))
				}
			case sym:
				tc := i.px.tc
				*out = append(*out, mkSym(types.Uint8, tc.Ite(b.t, tc.BV(8, 1), tc.BV(8, 0))))
			}
			return true
		}
		if s, ok := v.(sym); ok {
			tc := i.px.tc
			bytes := make([]value, n)
			for k := 0; k < n; k++ {
				bytes[k] = mkSym(types.Uint8, tc.Extract(s.t, 8*k+7, 8*k)) // little endian order
			}
			if !little {
				for a, b := 0, n-1; a < b; a, b = a+1, b-1 {
					bytes[a], bytes[b] = bytes[b], bytes[a]
				}
			}
			*out = append(*out, bytes...)
			return true
		}
		_, bits, ok := intBits(v)
		if !ok {
			return false
		}
		bytes := make([]value, n)
		for k := 0; k < n; k++ {
			bytes[k] = uint8(bits >> (8 * uint(k)))
		}
		if !little {
			for a, b := 0, n-1; a < b; a, b = a+1, b-1 {
				bytes[a], bytes[b] = bytes[b], bytes[a]
			}
		}
		*out = append(*out, bytes...)
		return true
	case *types.Array:
		for _, e := range v.(array) {
			if !i.encodeFixed(u.Elem(), e, out, little) {
				return false
			}
		}
		return true
	case *types.Struct:
		for k, e := range v.(structure) {
			if !i.encodeFixed(u.Field(k).Type(), e, out, little) {
				return false
			}
		}
		return true
	}
	return false
}

// ---------- math/big ----------

// bigVal is the payload of a math/big.Int: concrete (c), a symbolic unsigned bit-vector (bv, the
// value is bv2nat(bv)) or a symbolic Int term (t). For symbolic values nonneg and maxBits give a
// sound bound 0 <= v < 2^maxBits when nonneg.
type bigVal struct {
	c       *big.Int
	t       *Term
	bv      *Term
	nonneg  bool
	maxBits int
}

func bigOf(v value) *bigVal {
	p := v.(*value)
	if p == nil {
		rtPanic("invalid memory address or nil pointer dereference")
	}
	st := (*p).(structure)
	if b, ok := st[1].(*bigVal); ok {
		return b
	}
	return &bigVal{c: new(big.Int)}
}

func setBig(v value, b *bigVal) value {
	p := v.(*value)
	if p == nil {
		rtPanic("invalid memory address or nil pointer dereference")
	}
	st := (*p).(structure)
	st[1] = b
	return v
}

func concBig(c *big.Int) *bigVal { return &bigVal{c: c} }

func (b *bigVal) isConc() bool { return b.c != nil }

func (i *interpreter) bvBig(t *Term) *bigVal {
	if t.isConst() {
		return concBig(new(big.Int).Set(t.constBig()))
	}
	return &bigVal{bv: t, nonneg: true, maxBits: t.sort.W}
}

func (i *interpreter) bigTerm(b *bigVal) *Term {
	if b.c != nil {
		return i.px.tc.IntConst(b.c)
	}
	if b.t == nil {
		b.t = i.px.tc.Bv2Nat(b.bv)
	}
	return b.t
}

// bigBV returns the value as an unsigned bit-vector of width w, or nil when that is not possible.
func (i *interpreter) bigBV(b *bigVal, w int) *Term {
	tc := i.px.tc
	if b.c != nil {
		if b.c.Sign() < 0 || b.c.BitLen() > w {
			return nil
		}
		return tc.BVBig(w, b.c)
	}
	if b.bv != nil && b.bv.sort.W <= w {
		return tc.Zext(b.bv, w)
	}
	return nil
}

// bvWidth: width needed to hold the value as an unsigned bit-vector (0: not representable).
func (b *bigVal) bvWidth() int {
	if b.c != nil {
		if b.c.Sign() < 0 {
			return 0
		}
		if b.c.BitLen() == 0 {
			return 1
		}
		return b.c.BitLen()
	}
	if b.bv != nil {
		return b.bv.sort.W
	}
	return 0
}

func (b *bigVal) bounds() (bool, int) {
	if b.c != nil {
		return b.c.Sign() >= 0, b.c.BitLen()
	}
	return b.nonneg, b.maxBits
}

func (i *interpreter) newBigObj(b *bigVal) value {
	bt := i.prog.byPath["math/big"].Type("Int").Type()
	st := zero(bt).(structure)
	st[1] = b
	var cell value = st
	return &cell
}

func max2(a, b int) int {
	if a > b {
		return a
	}
	return b
}

func (i *interpreter) bigCmp(x, y *bigVal) value {
	if x.c != nil && y.c != nil {
		return x.c.Cmp(y.c)
	}
	tc := i.px.tc
	if wx, wy := x.bvWidth(), y.bvWidth(); wx > 0 && wy > 0 {
		w := max2(wx, wy)
		a, b := i.bigBV(x, w), i.bigBV(y, w)
		if i.px.branch(tc.bvcmp(OBvUlt, a, b)) {
			return -1
		}
		if i.px.branch(tc.Eq(a, b)) {
			return 0
		}
		return 1
	}
	a, b := i.bigTerm(x), i.bigTerm(y)
	if i.px.branch(tc.intcmp(OIntLt, a, b)) {
		return -1
	}
	if i.px.branch(tc.Eq(a, b)) {
		return 0
	}
	return 1
}

func init() {
	bin := func(name string, conc func(z, x, y *big.Int) *big.Int, symf func(i *interpreter, x, y *bigVal) *bigVal) {
		reg("(*math/big.Int)."+name, func(fr *frame, args []value) value {
			x, y := bigOf(args[1]), bigOf(args[2])
			if x.c != nil && y.c != nil {
				if (name == "Div" || name == "Quo" || name == "Mod" || name == "Rem") && y.c.Sign() == 0 {
					panic(targetPanic{iface{types.Typ[types.String], "division by zero"}})
				}
				return setBig(args[0], concBig(conc(new(big.Int), x.c, y.c)))
			}
			return setBig(args[0], symf(fr.i, x, y))
		})
	}
	bin("Add", (*big.Int).Add, func(i *interpreter, x, y *bigVal) *bigVal {
		tc := i.px.tc
		if wx, wy := x.bvWidth(), y.bvWidth(); wx > 0 && wy > 0 {
			w := max2(wx, wy) + 1
			return i.bvBig(tc.BvAdd(i.bigBV(x, w), i.bigBV(y, w)))
		}
		xn, xb := x.bounds()
		yn, yb := y.bounds()
		return &bigVal{t: tc.intbin(OIntAdd, i.bigTerm(x), i.bigTerm(y)), nonneg: xn && yn, maxBits: max2(xb, yb) + 1}
	})
	bin("Sub", (*big.Int).Sub, func(i *interpreter, x, y *bigVal) *bigVal {
		_, xb := x.bounds()
		_, yb := y.bounds()
		return &bigVal{t: i.px.tc.intbin(OIntSub, i.bigTerm(x), i.bigTerm(y)), nonneg: false, maxBits: max2(xb, yb) + 1}
	})
	bin("Mul", (*big.Int).Mul, func(i *interpreter, x, y *bigVal) *bigVal {
		tc := i.px.tc
		if wx, wy := x.bvWidth(), y.bvWidth(); wx > 0 && wy > 0 {
			w := wx + wy
			return i.bvBig(tc.BvMul(i.bigBV(x, w), i.bigBV(y, w)))
		}
		xn, xb := x.bounds()
		yn, yb := y.bounds()
		return &bigVal{t: tc.intbin(OIntMul, i.bigTerm(x), i.bigTerm(y)), nonneg: xn && yn, maxBits: xb + yb}
	})
	divLike := func(name string, euclid bool, wantMod bool) {
		bin(name, map[string]func(z, x, y *big.Int) *big.Int{
			"Div": (*big.Int).Div, "Quo": (*big.Int).Quo, "Mod": (*big.Int).Mod, "Rem": (*big.Int).Rem}[name],
			func(i *interpreter, x, y *bigVal) *bigVal {
				tc := i.px.tc
				if wx, wy := x.bvWidth(), y.bvWidth(); wx > 0 && wy > 0 {
					w := max2(wx, wy)
					a, b := i.bigBV(x, w), i.bigBV(y, w)
					if i.px.branch(tc.Eq(b, tc.BV(w, 0))) {
						panic(targetPanic{iface{types.Typ[types.String], "division by zero"}})
					}
					if wantMod {
						return i.bvBig(tc.bvbin(OBvUrem, a, b))
					}
					return i.bvBig(tc.bvbin(OBvUdiv, a, b))
				}
				a, b := i.bigTerm(x), i.bigTerm(y)
				if i.px.branch(tc.Eq(b, tc.IntConst(big.NewInt(0)))) {
					panic(targetPanic{iface{types.Typ[types.String], "division by zero"}})
				}
				xn, xb := x.bounds()
				yn, _ := y.bounds()
				if !euclid && !(xn && yn) {
					i.px.abort(stUnsupported, "big.Int.%s with possibly negative symbolic operands", name)
				}
				if wantMod {
					_, yb := y.bounds()
					return &bigVal{t: tc.intbin(OIntMod, a, b), nonneg: true, maxBits: yb}
				}
				return &bigVal{t: tc.intbin(OIntDiv, a, b), nonneg: xn && yn, maxBits: xb}
			})
	}
	divLike("Div", true, false)
	divLike("Quo", false, false)
	divLike("Mod", true, true)
	divLike("Rem", false, true)

	bitop := func(name string, conc func(z, x, y *big.Int) *big.Int, op Op) {
		bin(name, conc, func(i *interpreter, x, y *bigVal) *bigVal {
			tc := i.px.tc
			if wx, wy := x.bvWidth(), y.bvWidth(); wx > 0 && wy > 0 {
				w := max2(wx, wy)
				return i.bvBig(tc.bvbin(op, i.bigBV(x, w), i.bigBV(y, w)))
			}
			xn, xb := x.bounds()
			yn, yb := y.bounds()
			zero := tc.IntConst(big.NewInt(0))
			if !xn && !i.px.branch(tc.intcmp(OIntLe, zero, i.bigTerm(x))) {
				i.px.abort(stUnsupported, "big.Int.%s with negative symbolic operand", name)
			}
			if !yn && !i.px.branch(tc.intcmp(OIntLe, zero, i.bigTerm(y))) {
				i.px.abort(stUnsupported, "big.Int.%s with negative symbolic operand", name)
			}
			w := max2(max2(xb, yb), 1)
			a := tc.Int2Bv(i.bigTerm(x), w)
			b := tc.Int2Bv(i.bigTerm(y), w)
			return i.bvBig(tc.bvbin(op, a, b))
		})
	}
	bitop("Xor", (*big.Int).Xor, OBvXor)
	bitop("And", (*big.Int).And, OBvAnd)
	bitop("Or", (*big.Int).Or, OBvOr)

	reg("(*math/big.Int).Set", func(fr *frame, args []value) value {
		return setBig(args[0], bigOf(args[1]))
	})
	reg("(*math/big.Int).SetInt64", func(fr *frame, args []value) value {
		i := fr.i
		if s, ok := args[1].(sym); ok {
			tc := i.px.tc
			if top := tc.Extract(s.t, 63, 63); top.isConst() && top.c == 0 {
				return setBig(args[0], i.bvBig(tc.Extract(s.t, 62, 0)))
			}
			// decide the sign on this path so that the result stays a bit-vector
			if !i.px.branch(tc.bvcmp(OBvSlt, s.t, tc.BV(64, 0))) {
				return setBig(args[0], i.bvBig(tc.Extract(s.t, 62, 0)))
			}
			u := tc.Bv2Nat(s.t)
			neg := tc.bvcmp(OBvSlt, s.t, tc.BV(64, 0))
			two64 := tc.IntConst(new(big.Int).Lsh(big.NewInt(1), 64))
			return setBig(args[0], &bigVal{t: tc.Ite(neg, tc.intbin(OIntSub, u, two64), u), maxBits: 64})
		}
		return setBig(args[0], concBig(big.NewInt(asInt64(args[1]))))
	})
	reg("(*math/big.Int).SetUint64", func(fr *frame, args []value) value {
		if s, ok := args[1].(sym); ok {
			return setBig(args[0], fr.i.bvBig(s.t))
		}
		return setBig(args[0], concBig(new(big.Int).SetUint64(uint64(asInt64(args[1])))))
	})
	reg("math/big.NewInt", func(fr *frame, args []value) value {
		i := fr.i
		obj := i.newBigObj(nil)
		return intrinsics["(*math/big.Int).SetInt64"](fr, []value{obj, args[0]})
	})
	reg("(*math/big.Int).SetBytes", func(fr *frame, args []value) value {
		i := fr.i
		b := args[1].([]value)
		if allConcrete(b) {
			raw := make([]byte, len(b))
			for k, x := range b {
				raw[k] = x.(uint8)
			}
			return setBig(args[0], concBig(new(big.Int).SetBytes(raw)))
		}
		// strip leading concrete zero bytes to keep widths tight
		for len(b) > 0 {
			if z, ok := b[0].(uint8); ok && z == 0 {
				b = b[1:]
			} else {
				break
			}
		}
		return setBig(args[0], i.bvBig(i.bytesTerm(b)))
	})
	reg("(*math/big.Int).Bytes", func(fr *frame, args []value) value {
		i := fr.i
		x := bigOf(args[0])
		if x.c != nil {
			return bytesToValues(x.c.Bytes())
		}
		tc := i.px.tc
		if x.bv != nil {
			w := x.bv.sort.W
			nb := (w + 7) / 8
			full := tc.Zext(x.bv, 8*nb)
			// first non-zero byte from the top
			start := nb
			for k := 0; k < nb; k++ {
				byteK := tc.Extract(full, 8*(nb-k)-1, 8*(nb-k)-8)
				if i.px.branch(tc.Not(tc.Eq(byteK, tc.BV(8, 0)))) {
					start = k
					break
				}
			}
			out := make([]value, nb-start)
			for k := start; k < nb; k++ {
				out[k-start] = mkSym(types.Uint8, tc.Extract(full, 8*(nb-k)-1, 8*(nb-k)-8))
			}
			return out
		}
		_, mb := x.bounds()
		maxBytes := (mb + 7) / 8
		abs := x.t
		if !x.nonneg {
			zero := tc.IntConst(big.NewInt(0))
			abs = tc.Ite(tc.intcmp(OIntLt, x.t, zero), tc.intbin(OIntSub, zero, x.t), x.t)
		}
		n := 0
		for k := maxBytes; k >= 1; k-- {
			lim := tc.IntConst(new(big.Int).Lsh(big.NewInt(1), uint(8*(k-1))))
			if i.px.branch(tc.intcmp(OIntLe, lim, abs)) {
				n = k
				break
			}
		}
		out := make([]value, n)
		if n > 0 {
			bv := tc.Int2Bv(abs, 8*n)
			for k := 0; k < n; k++ {
				out[k] = mkSym(types.Uint8, tc.Extract(bv, 8*(n-k)-1, 8*(n-k)-8))
			}
		}
		return out
	})
	reg("(*math/big.Int).Cmp", func(fr *frame, args []value) value {
		return fr.i.bigCmp(bigOf(args[0]), bigOf(args[1]))
	})
	reg("(*math/big.Int).CmpAbs", func(fr *frame, args []value) value {
		x, y := bigOf(args[0]), bigOf(args[1])
		if x.c != nil && y.c != nil {
			return x.c.CmpAbs(y.c)
		}
		if (x.c == nil && !x.nonneg) || (y.c == nil && !y.nonneg) {
			fr.i.px.abort(stUnsupported, "big.Int.CmpAbs on possibly negative symbolic")
		}
		return fr.i.bigCmp(x, y)
	})
	reg("(*math/big.Int).Sign", func(fr *frame, args []value) value {
		x := bigOf(args[0])
		if x.c != nil {
			return x.c.Sign()
		}
		return fr.i.bigCmp(x, concBig(new(big.Int)))
	})
	reg("(*math/big.Int).SetString", func(fr *frame, args []value) value {
		s, ok := args[1].(string)
		if !ok {
			fr.i.px.abort(stUnsupported, "big.Int.SetString with symbolic string")
		}
		base := int(asInt64(args[2]))
		z, ok2 := new(big.Int).SetString(s, base)
		if !ok2 {
			return tuple{(*value)(nil), false}
		}
		return tuple{setBig(args[0], concBig(z)), true}
	})
	reg("(*math/big.Int).Text", func(fr *frame, args []value) value {
		p := args[0].(*value)
		if p == nil {
			return "<nil>"
		}
		x := bigOf(args[0])
		if x.c == nil {
			return fr.i.opaque()
		}
		return x.c.Text(int(asInt64(args[1])))
	})
	reg("(*math/big.Int).String", func(fr *frame, args []value) value {
		p := args[0].(*value)
		if p == nil {
			return "<nil>"
		}
		x := bigOf(args[0])
		if x.c == nil {
			return fr.i.opaque()
		}
		return x.c.String()
	})
	reg("(*math/big.Int).BitLen", func(fr *frame, args []value) value {
		x := bigOf(args[0])
		if x.c == nil {
			fr.i.px.abort(stUnsupported, "big.Int.BitLen symbolic")
		}
		return x.c.BitLen()
	})
	low64 := func(i *interpreter, x *bigVal) *Term {
		tc := i.px.tc
		if x.bv != nil {
			if x.bv.sort.W >= 64 {
				return tc.Extract(x.bv, 63, 0)
			}
			return tc.Zext(x.bv, 64)
		}
		return tc.Int2Bv(x.t, 64)
	}
	reg("(*math/big.Int).Int64", func(fr *frame, args []value) value {
		x := bigOf(args[0])
		if x.c == nil {
			return mkSym(types.Int64, low64(fr.i, x))
		}
		return x.c.Int64()
	})
	reg("(*math/big.Int).Uint64", func(fr *frame, args []value) value {
		x := bigOf(args[0])
		if x.c == nil {
			return mkSym(types.Uint64, low64(fr.i, x))
		}
		return x.c.Uint64()
	})
	reg("(*math/big.Int).IsInt64", func(fr *frame, args []value) value {
		x := bigOf(args[0])
		if x.c == nil {
			fr.i.px.abort(stUnsupported, "big.Int.IsInt64 symbolic")
		}
		return x.c.IsInt64()
	})
	reg("(*math/big.Int).Lsh", func(fr *frame, args []value) value {
		i := fr.i
		x := bigOf(args[1])
		n := uint(i.concInt(args[2], "big.Lsh count"))
		if x.c != nil {
			return setBig(args[0], concBig(new(big.Int).Lsh(x.c, n)))
		}
		tc := i.px.tc
		if x.bv != nil {
			if n == 0 {
				return setBig(args[0], x)
			}
			return setBig(args[0], i.bvBig(tc.Concat(x.bv, tc.BV(int(n), 0))))
		}
		f := tc.IntConst(new(big.Int).Lsh(big.NewInt(1), n))
		return setBig(args[0], &bigVal{t: tc.intbin(OIntMul, x.t, f), nonneg: x.nonneg, maxBits: x.maxBits + int(n)})
	})
	reg("(*math/big.Int).Rsh", func(fr *frame, args []value) value {
		i := fr.i
		x := bigOf(args[1])
		n := uint(i.concInt(args[2], "big.Rsh count"))
		if x.c != nil {
			return setBig(args[0], concBig(new(big.Int).Rsh(x.c, n)))
		}
		tc := i.px.tc
		if x.bv != nil {
			if int(n) >= x.bv.sort.W {
				return setBig(args[0], concBig(new(big.Int)))
			}
			return setBig(args[0], i.bvBig(tc.Extract(x.bv, x.bv.sort.W-1, int(n))))
		}
		f := tc.IntConst(new(big.Int).Lsh(big.NewInt(1), n))
		mb := x.maxBits - int(n)
		if mb < 0 {
			mb = 0
		}
		return setBig(args[0], &bigVal{t: tc.intbin(OIntDiv, x.t, f), nonneg: x.nonneg, maxBits: mb})
	})
}
