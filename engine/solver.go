package main

// Solver: one long-lived SMT solver process (z3 -in by default) per worker.
// Every composite term is sent once per session as a define-fun; path conditions are asserted at
// the base level; queries run inside push/pop. Any "(error" line or unknown is inconclusive.

import (
	"bufio"
	"fmt"
	"io"
	"math/big"
	"os"
	"os/exec"
	"strings"
	"time"
)

type SatResult int

const (
	Sat SatResult = iota
	Unsat
	Unknown
)

func (r SatResult) String() string { return [...]string{"sat", "unsat", "unknown"}[r] }

type Solver struct {
	name      string
	cmd       *exec.Cmd
	in        io.WriteCloser
	out       *bufio.Reader
	defined   map[int]bool
	declUF    map[string]bool
	declVar   map[int]bool
	timeoutMs int
	log       io.Writer // optional query corpus log

	Queries   int
	SolveTime time.Duration
	Errors    int
	lastErr   string
}

func solverArgv(kind string) []string {
	switch kind {
	case "z3-new":
		return []string{"z3-new", "-in"}
	case "cvc5":
		return []string{"cvc5", "--incremental", "--lang=smt2", "--produce-models"}
	default:
		return []string{"z3", "-in"}
	}
}

func newSolver(kind string, timeoutMs int) (*Solver, error) {
	argv := solverArgv(kind)
	cmd := exec.Command(argv[0], argv[1:]...)
	in, err := cmd.StdinPipe()
	if err != nil {
		return nil, err
	}
	outp, err := cmd.StdoutPipe()
	if err != nil {
		return nil, err
	}
	cmd.Stderr = os.Stderr
	if err := cmd.Start(); err != nil {
		return nil, err
	}
	s := &Solver{name: kind, cmd: cmd, in: in, out: bufio.NewReaderSize(outp, 1<<16), timeoutMs: timeoutMs}
	s.Reset()
	return s, nil
}

func (s *Solver) Close() {
	if s.cmd != nil {
		s.in.Close()
		s.cmd.Process.Kill()
		s.cmd.Wait()
		s.cmd = nil
	}
}

func (s *Solver) send(cmdline string) {
	if s.log != nil {
		io.WriteString(s.log, cmdline)
		io.WriteString(s.log, "\n")
	}
	io.WriteString(s.in, cmdline)
	io.WriteString(s.in, "\n")
}

func (s *Solver) Reset() {
	s.defined = map[int]bool{}
	s.declUF = map[string]bool{}
	s.declVar = map[int]bool{}
	s.send("(reset)")
	if s.name == "cvc5" {
		s.send("(set-logic ALL)")
		s.send(fmt.Sprintf("(set-option :tlimit-per %d)", s.timeoutMs))
	} else {
		s.send(fmt.Sprintf("(set-option :timeout %d)", s.timeoutMs))
	}
}

// define emits declarations/definitions for everything t depends on.
func (s *Solver) define(tc *TermCtx, t *Term) {
	if t.op == OConst {
		return
	}
	if t.op == OVar {
		if !s.declVar[t.id] {
			s.declVar[t.id] = true
			s.send(fmt.Sprintf("(declare-const %s %s)", t.name, t.sort))
		}
		return
	}
	if s.defined[t.id] {
		return
	}
	// iterative post-order to avoid deep recursion
	type item struct {
		t    *Term
		done bool
	}
	stack := []item{{t, false}}
	for len(stack) > 0 {
		it := stack[len(stack)-1]
		stack = stack[:len(stack)-1]
		x := it.t
		if x.op == OConst {
			continue
		}
		if x.op == OVar {
			if !s.declVar[x.id] {
				s.declVar[x.id] = true
				s.send(fmt.Sprintf("(declare-const %s %s)", x.name, x.sort))
			}
			continue
		}
		if s.defined[x.id] {
			continue
		}
		if it.done {
			if x.op == OApply && !s.declUF[x.name] {
				s.declUF[x.name] = true
				s.send(tc.ufs[x.name])
			}
			s.defined[x.id] = true
			s.send(fmt.Sprintf("(define-fun t%d () %s %s)", x.id, x.sort, x.body()))
			continue
		}
		stack = append(stack, item{x, true})
		for _, a := range x.args {
			if a.op != OConst && !s.defined[a.id] {
				stack = append(stack, item{a, false})
			}
		}
	}
}

func (s *Solver) Assert(tc *TermCtx, t *Term) {
	if t.isTrue() {
		return
	}
	s.define(tc, t)
	s.send(fmt.Sprintf("(assert %s)", t.atomString()))
}

// readUntilDone reads lines until the sentinel, returning them.
func (s *Solver) readUntilDone() []string {
	s.send(`(echo "##done")`)
	var lines []string
	for {
		line, err := s.out.ReadString('\n')
		if err != nil {
			s.Errors++
			s.lastErr = "solver pipe: " + err.Error()
			return append(lines, "(error \"pipe closed\")")
		}
		line = strings.TrimRight(line, "\r\n")
		if line == "##done" || line == `"##done"` {
			return lines
		}
		lines = append(lines, line)
	}
}

// Check decides satisfiability of (asserted path condition ∧ extra).
func (s *Solver) Check(tc *TermCtx, extra *Term) SatResult {
	r, _ := s.CheckModel(tc, extra, nil)
	return r
}

// CheckModel is Check plus, on sat, the values of the requested variables/terms.
func (s *Solver) CheckModel(tc *TermCtx, extra *Term, want []*Term) (SatResult, map[int]*big.Int) {
	if extra != nil {
		if extra.isFalse() {
			return Unsat, nil
		}
		s.define(tc, extra)
	}
	for _, w := range want {
		s.define(tc, w)
	}
	start := time.Now()
	s.send("(push 1)")
	if extra != nil && !extra.isTrue() {
		s.send(fmt.Sprintf("(assert %s)", extra.atomString()))
	}
	s.send("(check-sat)")
	lines := s.readUntilDone()
	res := Unknown
	bad := false
	for _, l := range lines {
		switch {
		case l == "sat":
			res = Sat
		case l == "unsat":
			res = Unsat
		case l == "unknown":
			res = Unknown
		case strings.Contains(l, "(error"):
			bad = true
			s.lastErr = l
		}
	}
	if bad {
		s.Errors++
		res = Unknown
	}
	var model map[int]*big.Int
	if res == Sat && len(want) > 0 {
		model = map[int]*big.Int{}
		// ask in chunks
		for i := 0; i < len(want); i += 64 {
			j := i + 64
			if j > len(want) {
				j = len(want)
			}
			var sb strings.Builder
			sb.WriteString("(get-value (")
			for _, w := range want[i:j] {
				sb.WriteString(w.atomString())
				sb.WriteByte(' ')
			}
			sb.WriteString("))")
			s.send(sb.String())
			out := strings.Join(s.readUntilDone(), " ")
			if strings.Contains(out, "(error") {
				s.Errors++
				s.lastErr = out
				res = Unknown
				break
			}
			vals := parseGetValue(out)
			if len(vals) != j-i {
				s.Errors++
				s.lastErr = "get-value parse: " + out
				res = Unknown
				break
			}
			for k, w := range want[i:j] {
				model[w.id] = vals[k]
			}
		}
	}
	s.send("(pop 1)")
	s.Queries++
	s.SolveTime += time.Since(start)
	return res, model
}

// parseGetValue parses "((name value) (name value) ...)" returning values in order.
func parseGetValue(out string) []*big.Int {
	toks := tokenize(out)
	pos := 0
	var parse func() interface{}
	parse = func() interface{} {
		if pos >= len(toks) {
			return nil
		}
		t := toks[pos]
		pos++
		if t == "(" {
			var l []interface{}
			for pos < len(toks) && toks[pos] != ")" {
				l = append(l, parse())
			}
			pos++
			return l
		}
		return t
	}
	root, ok := parse().([]interface{})
	if !ok {
		return nil
	}
	var res []*big.Int
	for _, p := range root {
		pair, ok := p.([]interface{})
		if !ok || len(pair) != 2 {
			return nil
		}
		v := sexprValue(pair[1])
		if v == nil {
			return nil
		}
		res = append(res, v)
	}
	return res
}

func sexprValue(x interface{}) *big.Int {
	switch x := x.(type) {
	case string:
		switch {
		case x == "true":
			return big.NewInt(1)
		case x == "false":
			return big.NewInt(0)
		case strings.HasPrefix(x, "#x"):
			v, ok := new(big.Int).SetString(x[2:], 16)
			if !ok {
				return nil
			}
			return v
		case strings.HasPrefix(x, "#b"):
			v, ok := new(big.Int).SetString(x[2:], 2)
			if !ok {
				return nil
			}
			return v
		default:
			v, ok := new(big.Int).SetString(x, 10)
			if !ok {
				return nil
			}
			return v
		}
	case []interface{}:
		// (- n) or (_ bvN w)
		if len(x) == 2 {
			if s, ok := x[0].(string); ok && s == "-" {
				v := sexprValue(x[1])
				if v == nil {
					return nil
				}
				return new(big.Int).Neg(v)
			}
		}
		if len(x) == 3 {
			if s, ok := x[0].(string); ok && s == "_" {
				if bv, ok := x[1].(string); ok && strings.HasPrefix(bv, "bv") {
					v, ok := new(big.Int).SetString(bv[2:], 10)
					if ok {
						return v
					}
				}
			}
		}
	}
	return nil
}

func tokenize(s string) []string {
	var toks []string
	i := 0
	for i < len(s) {
		c := s[i]
		switch {
		case c == '(' || c == ')':
			toks = append(toks, string(c))
			i++
		case c == ' ' || c == '\t' || c == '\n' || c == '\r':
			i++
		case c == '"':
			j := i + 1
			for j < len(s) && s[j] != '"' {
				j++
			}
			toks = append(toks, s[i:j+1])
			i = j + 1
		default:
			j := i
			for j < len(s) && s[j] != '(' && s[j] != ')' && s[j] != ' ' && s[j] != '\n' {
				j++
			}
			toks = append(toks, s[i:j])
			i = j
		}
	}
	return toks
}

// Enumerate returns the feasible values of t under the asserted path condition (at most limit+1),
// using one incremental scope. ok=false when the solver answered unknown or errored.
func (s *Solver) Enumerate(tc *TermCtx, t *Term, limit int) (vals []uint64, ok bool) {
	s.define(tc, t)
	start := time.Now()
	s.send("(push 1)")
	ok = true
	for {
		s.send("(check-sat)")
		lines := s.readUntilDone()
		s.Queries++
		res := Unknown
		for _, l := range lines {
			switch {
			case l == "sat":
				res = Sat
			case l == "unsat":
				res = Unsat
			case strings.Contains(l, "(error"):
				s.Errors++
				s.lastErr = l
				res = Unknown
			}
		}
		if res == Unsat {
			break
		}
		if res == Unknown {
			ok = false
			break
		}
		s.send(fmt.Sprintf("(get-value (%s))", t.atomString()))
		out := strings.Join(s.readUntilDone(), " ")
		v := parseGetValue(out)
		if len(v) != 1 || strings.Contains(out, "(error") {
			s.Errors++
			s.lastErr = "get-value: " + out
			ok = false
			break
		}
		vals = append(vals, v[0].Uint64())
		if len(vals) > limit {
			break
		}
		s.send(fmt.Sprintf("(assert (not (= %s %s)))", t.atomString(), tc.BV(t.sort.W, v[0].Uint64()).atomString()))
	}
	s.send("(pop 1)")
	s.SolveTime += time.Since(start)
	return vals, ok
}
