package main

// Scheduler: interpreted goroutines run on host goroutines but exactly one holds the baton.
// Context switches happen only at yield points (channel ops, select, lock acquisition, WaitGroup,
// atomics, go, timers, exit). Choices among several enabled goroutines are decisions of the path.

import (
	"fmt"
	"go/types"
	"runtime/debug"
	"sort"
	"sync"
)

type gthread struct {
	id      int
	name    string
	wake    chan bool
	done    bool
	blocked bool
	waitFn  func() bool
	desc    string
	top     *frame // innermost frame (for diagnostics)

	waiters  []*waiter
	fired    *waiter
	firedVal value
	firedOk  bool
	panicVal interface{} // pending "send on closed channel" panic

	defersDepth int
}

type waiter struct {
	g       *gthread
	ch      *channel
	isSend  bool
	val     value
	caseIdx int
}

type channel struct {
	id     int
	buf    []value
	cap    int
	closed bool
	recvq  []*waiter
	sendq  []*waiter
	elemT  types.Type
	timer  bool
}

func (c *channel) length() int {
	if c == nil {
		return 0
	}
	return len(c.buf)
}

func (c *channel) capacity() int {
	if c == nil {
		return 0
	}
	return c.cap
}

type vtimer struct {
	deadline int64
	ch       *channel // time.After / NewTimer channel (nil for Sleep)
	fired    bool
	stopped  bool
	seq      int
	name     string
}

type scheduler struct {
	px       *PathCtx
	i        *interpreter
	threads  []*gthread
	cur      *gthread
	preempts int
	delays   int // deviations from the round-robin order used so far (delay-bounded scheduling)

	busyStart int64 // virtual time at which the current count of timer wake-ups started
	busyFires int
	timers    []*vtimer
	nchan     int
	wg        sync.WaitGroup

	mu       sync.Mutex
	finished bool
	end      pathEnd
	endCh    chan struct{}
	tseq     int
}

func newScheduler(px *PathCtx, i *interpreter) *scheduler {
	return &scheduler{px: px, i: i, endCh: make(chan struct{})}
}

func (s *scheduler) newThread(name string) *gthread {
	g := &gthread{id: len(s.threads), name: name, wake: make(chan bool, 1)}
	s.threads = append(s.threads, g)
	if len(s.threads) > s.px.res.MaxThreads {
		s.px.res.MaxThreads = len(s.threads)
	}
	return g
}

// finish records the end of the path and releases every parked goroutine.
func (s *scheduler) finish(e pathEnd) {
	s.mu.Lock()
	if s.finished {
		s.mu.Unlock()
		return
	}
	s.finished = true
	s.end = e
	s.mu.Unlock()
	for _, g := range s.threads {
		if g != s.cur && !g.done {
			select {
			case g.wake <- false:
			default:
			}
		}
	}
	close(s.endCh)
}

// spawn starts fn on a new interpreted goroutine; it runs when first scheduled.
func (s *scheduler) spawn(name string, body func(g *gthread)) *gthread {
	g := s.newThread(name)
	s.wg.Add(1)
	go func() {
		defer s.wg.Done()
		defer func() {
			r := recover()
			if r == nil {
				return
			}
			if pe, ok := r.(pathEnd); ok {
				if pe.status == stKilled {
					return
				}
				s.finish(pe)
				return
			}
			s.finish(pathEnd{stEngineBug, fmt.Sprintf("host panic in goroutine %s: %v\n%s", name, r, debug.Stack())})
		}()
		if ok := <-g.wake; !ok {
			return
		}
		body(g)
		// goroutine exit
		g.done = true
		if g.id == 0 {
			s.finish(pathEnd{stOK, ""})
			return
		}
		s.reschedule(g, true)
	}()
	return g
}

func (s *scheduler) enabled(g *gthread) bool {
	if g.done {
		return false
	}
	if !g.blocked {
		return true
	}
	return g.waitFn != nil && g.waitFn()
}

func (s *scheduler) enabledIDs() []int64 {
	var ids []int64
	for _, g := range s.threads {
		if s.enabled(g) {
			ids = append(ids, int64(g.id))
		}
	}
	return ids
}

// switchTo hands the baton to next and parks g until it is scheduled again (unless g is exiting).
func (s *scheduler) switchTo(g, next *gthread, exiting bool) {
	s.cur = next
	next.wake <- true
	if exiting {
		return
	}
	if ok := <-g.wake; !ok {
		panic(pathEnd{stKilled, ""})
	}
}

// rrOrder returns the enabled goroutines in round-robin order starting after g (g itself last
// unless it is the only one).
func (s *scheduler) rrOrder(g *gthread, ids []int64) []int64 {
	var after, before []int64
	for _, id := range ids {
		switch {
		case id > int64(g.id):
			after = append(after, id)
		case id < int64(g.id):
			before = append(before, id)
		}
	}
	out := append(after, before...)
	for _, id := range ids {
		if id == int64(g.id) {
			out = append(out, id)
		}
	}
	return out
}

// delayBounded reports whether this run uses delay-bounded scheduling: a deterministic
// round-robin scheduler from which an execution may deviate at most DelayBound times in total
// (choosing the k-th candidate instead of the first costs k deviations).
func (s *scheduler) delayBounded() bool { return s.px.eng.cfg.DelayBound != nil }

func (s *scheduler) chooseDelayed(opts []int64) int64 {
	left := *s.px.eng.cfg.DelayBound - s.delays
	if left < 0 {
		left = 0
	}
	if len(opts) > left+1 {
		opts = opts[:left+1]
	}
	if len(opts) == 1 {
		return opts[0]
	}
	c := s.px.choose('s', opts)
	for k, id := range opts {
		if id == c {
			s.delays += k
		}
	}
	return c
}

// yield is a preemption point for a goroutine that is still able to run.
func (s *scheduler) yield(g *gthread) {
	if len(s.threads) < 2 {
		return
	}
	if s.delayBounded() {
		ids := s.enabledIDs()
		if len(ids) < 2 {
			return
		}
		// staying on the current goroutine is free; the k-th other one in round-robin order costs k
		opts := []int64{int64(g.id)}
		for _, id := range s.rrOrder(g, ids) {
			if id != int64(g.id) {
				opts = append(opts, id)
			}
		}
		c := s.chooseDelayed(opts)
		if c == int64(g.id) {
			return
		}
		s.preempts++
		s.px.res.Preemptions = s.preempts
		s.switchTo(g, s.threads[c], false)
		return
	}
	if s.preempts >= s.px.eng.cfg.Preemptions {
		return
	}
	ids := s.enabledIDs()
	if len(ids) < 2 {
		return
	}
	// current first (no preemption), then the others
	opts := []int64{int64(g.id)}
	for _, id := range ids {
		if id != int64(g.id) {
			opts = append(opts, id)
		}
	}
	c := s.px.choose('s', opts)
	if c == int64(g.id) {
		return
	}
	s.preempts++
	s.px.res.Preemptions = s.preempts
	s.switchTo(g, s.threads[c], false)
}

// reschedule picks the next goroutine when g cannot continue (blocked or exited).
func (s *scheduler) reschedule(g *gthread, exiting bool) {
	for {
		ids := s.enabledIDs()
		if len(ids) == 0 {
			if s.fireTimer() {
				continue
			}
			s.deadlock(g)
		}
		var c int64
		if s.delayBounded() {
			c = s.chooseDelayed(s.rrOrder(g, ids))
		} else {
			c = s.px.choose('s', ids)
		}
		if c == int64(g.id) && !exiting {
			return
		}
		s.switchTo(g, s.threads[c], exiting)
		return
	}
}

// block parks g until waitFn holds.
func (s *scheduler) block(g *gthread, desc string, waitFn func() bool) {
	if waitFn() {
		return
	}
	g.blocked = true
	g.waitFn = waitFn
	g.desc = desc
	s.reschedule(g, false)
	g.blocked = false
	g.waitFn = nil
	g.desc = ""
}

func (s *scheduler) fireTimer() bool {
	var best *vtimer
	for _, t := range s.timers {
		if t.fired || t.stopped {
			continue
		}
		if best == nil || t.deadline < best.deadline || (t.deadline == best.deadline && t.seq < best.seq) {
			best = t
		}
	}
	if best == nil {
		return false
	}
	if best.deadline > s.px.clock {
		s.px.clock = best.deadline
	}
	s.checkHorizon()
	s.checkBusyWait()
	s.fire(best)
	return true
}

// checkBusyWait: a goroutine polling with tiny sleeps for something that never happens wakes up
// through a timer again and again while virtual time hardly moves; the 6-hour horizon would take
// 10^13 wake-ups. More than 20000 timer wake-ups (with every goroutine blocked each time) inside one
// virtual second are reported as a stall.
func (s *scheduler) checkBusyWait() {
	if s.busyStart == 0 || s.px.clock-s.busyStart > 1e9 {
		s.busyStart, s.busyFires = s.px.clock, 0
	}
	s.busyFires++
	if s.busyFires > 20000 {
		var sb []string
		for _, t := range s.threads {
			if !t.done {
				sb = append(sb, fmt.Sprintf("g%d(%s): %s", t.id, t.name, t.desc))
			}
		}
		sort.Strings(sb)
		msg := fmt.Sprintf("busy wait: %d timer wake-ups within one virtual second with every goroutine blocked: %v", s.busyFires, sb)
		s.px.addCandidate("stall", "stall", msg, "", nil, nil)
		panic(pathEnd{stCrashed, msg})
	}
}

// checkHorizon: when only timers keep the program going for longer than the virtual-time horizon,
// nothing else can make progress: report a stall instead of spinning forever.
func (s *scheduler) checkHorizon() {
	h := s.px.eng.cfg.VirtualHorizonS
	if h <= 0 {
		h = 6 * 3600
	}
	if s.px.clock-s.px.clock0 > int64(h)*1e9 {
		var sb []string
		for _, t := range s.threads {
			if !t.done {
				sb = append(sb, fmt.Sprintf("g%d(%s): %s", t.id, t.name, t.desc))
			}
		}
		sort.Strings(sb)
		msg := fmt.Sprintf("no progress for %d virtual seconds except by timers: %v", h, sb)
		s.px.addCandidate("stall", "stall", msg, "", nil, nil)
		panic(pathEnd{stCrashed, msg})
	}
}

func (s *scheduler) fire(t *vtimer) {
	t.fired = true
	if t.ch != nil {
		tv := s.i.makeTime(s.px.clock)
		if len(t.ch.recvq) > 0 {
			w := t.ch.recvq[0]
			s.deliver(w, tv, true)
		} else if len(t.ch.buf) < t.ch.cap {
			t.ch.buf = append(t.ch.buf, tv)
		}
	}
}

func (s *scheduler) deadlock(g *gthread) {
	var sb []string
	for _, t := range s.threads {
		if !t.done {
			sb = append(sb, fmt.Sprintf("g%d(%s): %s", t.id, t.name, t.desc))
		}
	}
	sort.Strings(sb)
	msg := fmt.Sprintf("all goroutines are blocked: %v", sb)
	s.px.addCandidate("deadlock", "deadlock", msg, "", nil, nil)
	panic(pathEnd{stCrashed, msg})
}

// ---------- channel operations ----------

func (s *scheduler) makeChan(elemT types.Type, cap int) *channel {
	s.nchan++
	return &channel{id: s.nchan, cap: cap, elemT: elemT}
}

func removeWaiter(q []*waiter, w *waiter) []*waiter {
	for k, x := range q {
		if x == w {
			return append(q[:k:k], q[k+1:]...)
		}
	}
	return q
}

// deliver completes a parked waiter's operation.
func (s *scheduler) deliver(w *waiter, v value, ok bool) {
	g := w.g
	for _, x := range g.waiters {
		if x.isSend {
			x.ch.sendq = removeWaiter(x.ch.sendq, x)
		} else {
			x.ch.recvq = removeWaiter(x.ch.recvq, x)
		}
	}
	g.waiters = nil
	g.fired = w
	g.firedVal = v
	g.firedOk = ok
}

func (s *scheduler) register(g *gthread, w *waiter) {
	w.g = g
	g.waiters = append(g.waiters, w)
	if w.isSend {
		w.ch.sendq = append(w.ch.sendq, w)
	} else {
		w.ch.recvq = append(w.ch.recvq, w)
	}
}

func (s *scheduler) canSend(c *channel) bool {
	return c != nil && (c.closed || len(c.recvq) > 0 || len(c.buf) < c.cap)
}

func (s *scheduler) canRecv(c *channel) bool {
	return c != nil && (len(c.buf) > 0 || len(c.sendq) > 0 || c.closed)
}

func (s *scheduler) doSend(c *channel, v value) {
	if c.closed {
		panic(targetPanic{iface{s.i.runtimeErrorString, "send on closed channel"}})
	}
	if len(c.recvq) > 0 {
		s.deliver(c.recvq[0], v, true)
		return
	}
	c.buf = append(c.buf, v)
}

func (s *scheduler) doRecv(c *channel) (value, bool) {
	if len(c.buf) > 0 {
		v := c.buf[0]
		c.buf = append([]value(nil), c.buf[1:]...)
		if len(c.sendq) > 0 {
			w := c.sendq[0]
			c.buf = append(c.buf, w.val)
			s.deliver(w, nil, true)
		}
		return v, true
	}
	if len(c.sendq) > 0 {
		w := c.sendq[0]
		v := w.val
		s.deliver(w, nil, true)
		return v, true
	}
	// closed
	return zero(c.elemT), false
}

func (i *interpreter) curG(fr *frame) *gthread { return fr.g }

func (i *interpreter) chanSend(fr *frame, c *channel, v value) {
	s := i.px.sched
	g := fr.g
	s.yield(g)
	if c == nil {
		s.block(g, "send on nil channel", func() bool { return false })
	}
	if s.canSend(c) {
		s.doSend(c, v)
		return
	}
	w := &waiter{ch: c, isSend: true, val: v}
	g.fired = nil
	s.register(g, w)
	s.block(g, fmt.Sprintf("chan send (chan %d)", c.id), func() bool { return g.fired != nil })
	if g.panicVal != nil {
		p := g.panicVal
		g.panicVal = nil
		panic(p)
	}
}

func (i *interpreter) chanRecv(fr *frame, c *channel, elemT types.Type) (value, bool) {
	s := i.px.sched
	g := fr.g
	s.yield(g)
	if c == nil {
		s.block(g, "receive from nil channel", func() bool { return false })
	}
	if s.canRecv(c) {
		return s.doRecv(c)
	}
	w := &waiter{ch: c}
	g.fired = nil
	s.register(g, w)
	s.block(g, fmt.Sprintf("chan receive (chan %d)", c.id), func() bool { return g.fired != nil })
	v, ok := g.firedVal, g.firedOk
	if !ok {
		v = zero(elemT)
	}
	return v, ok
}

func (i *interpreter) chanClose(fr *frame, c *channel) {
	s := i.px.sched
	if fr != nil {
		s.yield(fr.g)
	}
	if c == nil {
		panic(targetPanic{iface{i.runtimeErrorString, "close of nil channel"}})
	}
	if c.closed {
		panic(targetPanic{iface{i.runtimeErrorString, "close of closed channel"}})
	}
	c.closed = true
	for len(c.recvq) > 0 {
		s.deliver(c.recvq[0], nil, false)
	}
	for len(c.sendq) > 0 {
		w := c.sendq[0]
		w.g.panicVal = targetPanic{iface{i.runtimeErrorString, "send on closed channel"}}
		s.deliver(w, nil, false)
	}
}

type selCase struct {
	ch     *channel
	isSend bool
	val    value
	elemT  types.Type
}

// selectOp returns (chosen index or -1 for default, received value, recvOk).
func (i *interpreter) selectOp(fr *frame, cases []selCase, blocking bool) (int, value, bool) {
	s := i.px.sched
	g := fr.g
	s.yield(g)
	var ready []int64
	for k, c := range cases {
		if c.isSend {
			if s.canSend(c.ch) {
				ready = append(ready, int64(k))
			}
		} else if s.canRecv(c.ch) {
			ready = append(ready, int64(k))
		}
	}
	if len(ready) > 0 {
		k := ready[0]
		if len(ready) > 1 {
			k = s.px.choose('n', ready)
		}
		c := cases[k]
		if c.isSend {
			s.doSend(c.ch, c.val)
			return int(k), nil, false
		}
		v, ok := s.doRecv(c.ch)
		return int(k), v, ok
	}
	if !blocking {
		return -1, nil, false
	}
	g.fired = nil
	n := 0
	for k, c := range cases {
		if c.ch == nil {
			continue
		}
		s.register(g, &waiter{ch: c.ch, isSend: c.isSend, val: c.val, caseIdx: k})
		n++
	}
	s.block(g, fmt.Sprintf("select (%d cases)", n), func() bool { return g.fired != nil })
	if g.panicVal != nil {
		p := g.panicVal
		g.panicVal = nil
		panic(p)
	}
	w := g.fired
	if w.isSend {
		return w.caseIdx, nil, false
	}
	return w.caseIdx, g.firedVal, g.firedOk
}

// ---------- timers ----------

func (s *scheduler) newTimer(d int64, withChan bool, name string) *vtimer {
	s.tseq++
	t := &vtimer{deadline: s.px.clock + d, seq: s.tseq, name: name}
	if withChan {
		t.ch = s.makeChan(nil, 1)
		t.ch.timer = true
	}
	s.timers = append(s.timers, t)
	return t
}

func (s *scheduler) sleep(g *gthread, d int64) {
	if d <= 0 {
		s.yield(g)
		return
	}
	t := s.newTimer(d, false, "sleep")
	s.block(g, fmt.Sprintf("sleep %dns", d), func() bool { return t.fired })
}
