// Derived from golang.org/x/tools/go/ssa/interp (Copyright 2013 The Go Authors, BSD license,
// see LICENSE.x-tools); extended with symbolic values, explicit runtime-panic modelling,
// a controlled scheduler and intrinsics.

package main

import (
	"fmt"
	"go/token"
	"go/types"
	"runtime/debug"
	"strings"

	"golang.org/x/tools/go/ssa"
)

type continuation int

const (
	kNext continuation = iota
	kReturn
	kJump
)

// State of one path execution shared between all interpreted goroutines.
type interpreter struct {
	prog               *Program
	globals            map[*ssa.Global]*value
	runtimeErrorString types.Type
	sizes              types.Sizes
	px                 *PathCtx

	panicSite  string
	panicStack []string
}

type deferred struct {
	fn    value
	args  []value
	instr *ssa.Defer
	tail  *deferred
}

type frame struct {
	i                *interpreter
	g                *gthread
	caller           *frame
	fn               *ssa.Function
	block, prevBlock *ssa.BasicBlock
	env              []value
	slots            map[ssa.Value]int
	locals           []value
	defers           *deferred
	result           value
	panicking        bool
	panic            interface{}
	phitemps         []value
	cur              ssa.Instruction
	callpos          token.Pos
}

func (fr *frame) get(key ssa.Value) value {
	switch key := key.(type) {
	case nil:
		return nil
	case *ssa.Function, *ssa.Builtin:
		return key
	case *ssa.Const:
		return constValue(key)
	case *ssa.Global:
		return fr.i.global(key)
	}
	if k, ok := fr.slots[key]; ok {
		return fr.env[k]
	}
	panic(fmt.Sprintf("get: no value for %T: %v", key, key.Name()))
}

func (fr *frame) set(key ssa.Value, v value) {
	fr.env[fr.slots[key]] = v
}

func (i *interpreter) global(g *ssa.Global) *value {
	if r, ok := i.globals[g]; ok {
		return r
	}
	cell := zero(mustDeref(g.Type()))
	i.globals[g] = &cell
	return &cell
}

func (fr *frame) runDefer(d *deferred) {
	var ok bool
	defer func() {
		if !ok {
			r := recover()
			if pe, isEnd := r.(pathEnd); isEnd {
				panic(pe)
			}
			fr.i.classifyPanic(fr, r)
			fr.panicking = true
			fr.panic = r
		}
	}()
	fr.i.call(fr, d.instr.Pos(), d.fn, d.args)
	ok = true
}

func (fr *frame) runDefers() {
	for d := fr.defers; d != nil; d = d.tail {
		fr.runDefer(d)
	}
	fr.defers = nil
	if fr.panicking {
		panic(fr.panic) // new panic, or still panicking
	}
}

// classifyPanic turns host panics that are not target panics into engine-bug path ends.
func (i *interpreter) classifyPanic(fr *frame, r interface{}) {
	switch r.(type) {
	case targetPanic, rtError:
		if i.panicSite == "" {
			i.panicSite, i.panicStack = i.where(fr)
		}
		return
	case pathEnd:
		panic(r)
	}
	site, _ := i.where(fr)
	panic(pathEnd{stEngineBug, fmt.Sprintf("host panic at %s: %v\n%s", site, r, debug.Stack())})
}

// where describes the current source position and interpreted call stack.
func (i *interpreter) where(fr *frame) (string, []string) {
	var stack []string
	site := ""
	for f := fr; f != nil; f = f.caller {
		pos := token.NoPos
		if f.cur != nil {
			pos = f.cur.Pos()
		}
		if pos == token.NoPos && f.cur != nil {
			// fall back to the nearest instruction with a position
			for _, in := range f.cur.Block().Instrs {
				if in.Pos() != token.NoPos {
					pos = in.Pos()
				}
				if in == f.cur && pos != token.NoPos {
					break
				}
			}
		}
		p := i.prog.fset.Position(pos)
		file := p.Filename
		if k := strings.LastIndex(file, "/"); k >= 0 {
			if k2 := strings.LastIndex(file[:k], "/"); k2 >= 0 {
				file = file[k2+1:]
			}
		}
		s := fmt.Sprintf("%s (%s:%d)", f.fn.String(), file, p.Line)
		if site == "" {
			site = s
		}
		stack = append(stack, s)
		if len(stack) > 40 {
			break
		}
	}
	return site, stack
}

func lookupMethod(i *interpreter, typ types.Type, meth *types.Func) *ssa.Function {
	return i.prog.ssa.LookupMethod(typ, meth.Pkg(), meth.Name())
}

func (i *interpreter) visitInstr(fr *frame, instr ssa.Instruction) continuation {
	px := i.px
	px.steps++
	if px.steps > px.stepLimit {
		px.abort(stBound, "instruction budget of %d exhausted", px.stepLimit)
	}
	fr.cur = instr
	switch instr := instr.(type) {
	case *ssa.DebugRef:
		// no-op

	case *ssa.UnOp:
		if px.inInit && instr.Op == token.MUL {
			if p, ok := fr.get(instr.X).(*value); ok && p == nil {
				px.noteInitTolerance(i, fr)
				fr.set(instr, zero(mustDeref(instr.X.Type())))
				break
			}
		}
		fr.set(instr, i.unop(fr, instr, fr.get(instr.X)))

	case *ssa.BinOp:
		fr.set(instr, i.binop(instr.Op, instr.X.Type(), fr.get(instr.X), fr.get(instr.Y)))

	case *ssa.Call:
		if px.inInit && instr.Call.IsInvoke() {
			if recv, ok := fr.get(instr.Call.Value).(iface); ok && recv.t == nil {
				// package initialisers of std packages touching reflection: tolerated, result unused
				if instr.Type() == nil || isEmptyTuple(instr.Type()) {
					fr.set(instr, nil)
				} else {
					fr.set(instr, zero(instr.Type()))
				}
				break
			}
		}
		fn, args := i.prepareCall(fr, &instr.Call)
		if px.inInit && fr.fn.Synthetic == "package initializer" && !i.prog.isRepoPkg(fr.fn) {
			fr.set(instr, i.tolerantInitCall(fr, instr, fn, args))
			break
		}
		fr.set(instr, i.call(fr, instr.Pos(), fn, args))

	case *ssa.ChangeInterface:
		fr.set(instr, fr.get(instr.X))

	case *ssa.ChangeType:
		fr.set(instr, fr.get(instr.X))

	case *ssa.Convert:
		fr.set(instr, i.conv(instr.Type(), instr.X.Type(), fr.get(instr.X)))

	case *ssa.SliceToArrayPointer:
		fr.set(instr, sliceToArrayPointer(instr.Type(), instr.X.Type(), fr.get(instr.X)))

	case *ssa.MakeInterface:
		fr.set(instr, iface{t: instr.X.Type(), v: fr.get(instr.X)})

	case *ssa.Extract:
		fr.set(instr, fr.get(instr.Tuple).(tuple)[instr.Index])

	case *ssa.Slice:
		fr.set(instr, i.sliceOp(fr.get(instr.X), fr.get(instr.Low), fr.get(instr.High), fr.get(instr.Max)))

	case *ssa.Return:
		switch len(instr.Results) {
		case 0:
		case 1:
			fr.result = fr.get(instr.Results[0])
		default:
			var res []value
			for _, r := range instr.Results {
				res = append(res, fr.get(r))
			}
			fr.result = tuple(res)
		}
		fr.block = nil
		return kReturn

	case *ssa.RunDefers:
		fr.runDefers()

	case *ssa.Panic:
		panic(targetPanic{fr.get(instr.X)})

	case *ssa.Send:
		i.chanSend(fr, fr.get(instr.Chan).(*channel), copyVal(fr.get(instr.X)))

	case *ssa.Store:
		p := fr.get(instr.Addr).(*value)
		if p == nil {
			rtPanic("invalid memory address or nil pointer dereference")
		}
		store(mustDeref(instr.Addr.Type()), p, fr.get(instr.Val))

	case *ssa.If:
		succ := 1
		if i.truth(fr.get(instr.Cond)) {
			succ = 0
		}
		fr.prevBlock, fr.block = fr.block, fr.block.Succs[succ]
		return kJump

	case *ssa.Jump:
		fr.prevBlock, fr.block = fr.block, fr.block.Succs[0]
		return kJump

	case *ssa.Defer:
		fn, args := i.prepareCall(fr, &instr.Call)
		defers := &fr.defers
		if into := fr.get(instr.DeferStack); into != nil {
			defers = into.(**deferred)
		}
		*defers = &deferred{fn: fn, args: args, instr: instr, tail: *defers}

	case *ssa.Go:
		fn, args := i.prepareCall(fr, &instr.Call)
		i.goStmt(fr, instr, fn, args)

	case *ssa.MakeChan:
		n := i.concInt(fr.get(instr.Size), "channel size")
		if n < 0 {
			rtPanic("makechan: size out of range")
		}
		fr.set(instr, px.sched.makeChan(instr.Type().Underlying().(*types.Chan).Elem(), int(n)))

	case *ssa.Alloc:
		var addr *value
		if instr.Heap {
			addr = new(value)
			fr.set(instr, addr)
		} else {
			addr = fr.env[fr.slots[instr]].(*value)
		}
		*addr = zero(mustDeref(instr.Type()))

	case *ssa.MakeSlice:
		tElt := instr.Type().Underlying().(*types.Slice).Elem()
		n, c := i.makeSliceSizes(fr, tElt, fr.get(instr.Len), fr.get(instr.Cap))
		slice := make([]value, c)
		for k := range slice {
			slice[k] = zero(tElt)
		}
		fr.set(instr, slice[:n])

	case *ssa.MakeMap:
		fr.set(instr, makeOmap(instr.Type().Underlying().(*types.Map).Key()))

	case *ssa.Range:
		fr.set(instr, i.rangeIter(fr.get(instr.X), instr.X.Type()))

	case *ssa.Next:
		fr.set(instr, fr.get(instr.Iter).(iter).next())

	case *ssa.FieldAddr:
		p := fr.get(instr.X).(*value)
		if p == nil {
			if px.inInit {
				// initialiser of a dependency using an unmodelled package (e.g. btcec curve tables)
				px.noteInitTolerance(i, fr)
				z := zero(mustDeref(instr.X.Type()))
				p = &z
			} else {
				rtPanic("invalid memory address or nil pointer dereference")
			}
		}
		fr.set(instr, &(*p).(structure)[instr.Field])

	case *ssa.Field:
		fr.set(instr, fr.get(instr.X).(structure)[instr.Field])

	case *ssa.IndexAddr:
		x := fr.get(instr.X)
		idx := fr.get(instr.Index)
		switch x := x.(type) {
		case []value:
			fr.set(instr, i.indexAddr(x, idx))
		case *value: // *array
			if x == nil {
				rtPanic("invalid memory address or nil pointer dereference")
			}
			fr.set(instr, i.indexAddr((*x).(array), idx))
		default:
			panic(fmt.Sprintf("unexpected x type in IndexAddr: %T", x))
		}

	case *ssa.Index:
		x := fr.get(instr.X)
		idx := fr.get(instr.Index)
		switch x := x.(type) {
		case array:
			fr.set(instr, i.indexRead(x, idx, "array index"))
		case string:
			if _, isS := idx.(sym); isS {
				fr.set(instr, i.indexRead(strBytes(x), idx, "string index"))
			} else {
				j := asInt64(idx)
				if j < 0 || j >= int64(len(x)) {
					rtPanic("index out of range [%d] with length %d", j, len(x))
				}
				fr.set(instr, x[j])
			}
		case symstring:
			fr.set(instr, i.indexRead(x.b, idx, "string index"))
		default:
			panic(fmt.Sprintf("unexpected x type in Index: %T", x))
		}

	case *ssa.Lookup:
		fr.set(instr, i.lookup(instr, fr.get(instr.X), fr.get(instr.Index)))

	case *ssa.MapUpdate:
		m := fr.get(instr.Map).(*omap)
		if m == nil {
			panic(targetPanic{iface{i.runtimeErrorString, "assignment to entry in nil map"}})
		}
		m.insert(i, copyVal(fr.get(instr.Key)), copyVal(fr.get(instr.Value)))

	case *ssa.TypeAssert:
		fr.set(instr, typeAssert(i, instr, fr.get(instr.X).(iface)))

	case *ssa.MakeClosure:
		var bindings []value
		for _, binding := range instr.Bindings {
			bindings = append(bindings, fr.get(binding))
		}
		fr.set(instr, &closure{instr.Fn.(*ssa.Function), bindings})

	case *ssa.Phi:
		panic("unreachable: phis are processed at block entry")

	case *ssa.Select:
		var cases []selCase
		for _, st := range instr.States {
			c := selCase{ch: fr.get(st.Chan).(*channel), elemT: st.Chan.Type().Underlying().(*types.Chan).Elem()}
			if st.Dir == types.SendOnly {
				c.isSend = true
				c.val = copyVal(fr.get(st.Send))
			}
			cases = append(cases, c)
		}
		chosen, recv, recvOk := i.selectOp(fr, cases, instr.Blocking)
		r := tuple{chosen, recvOk}
		for k, st := range instr.States {
			if st.Dir == types.RecvOnly {
				var v value
				if k == chosen && recvOk {
					v = recv
				} else {
					v = zero(st.Chan.Type().Underlying().(*types.Chan).Elem())
				}
				r = append(r, v)
			}
		}
		fr.set(instr, r)

	default:
		panic(fmt.Sprintf("unexpected instruction: %T", instr))
	}
	return kNext
}

// makeSliceSizes validates (possibly symbolic) len/cap like runtime.makeslice.
func (i *interpreter) makeSliceSizes(fr *frame, tElt types.Type, lenV, capV value) (int, int) {
	es := i.sizes.Sizeof(tElt)
	const maxAlloc = int64(1) << 48
	limit := maxAlloc
	if es > 0 {
		limit = maxAlloc / es
	}
	checkOne := func(v value, what string) int64 {
		if s, ok := v.(sym); ok {
			tc := i.px.tc
			w := kindWidth(s.k)
			var bad *Term
			if kindSigned(s.k) {
				bad = tc.bvcmp(OBvSlt, s.t, tc.BV(w, 0))
				if w == 64 || uint64(limit) < uint64(1)<<uint(w-1) {
					bad = tc.Or(bad, tc.bvcmp(OBvSlt, tc.BV(w, uint64(limit)), s.t))
				}
			} else {
				bad = tc.Bool(false)
				if w == 64 || uint64(limit) < uint64(1)<<uint(w) {
					bad = tc.bvcmp(OBvUlt, tc.BV(w, uint64(limit)), s.t)
				}
			}
			if i.px.branch(bad) {
				panic(targetPanic{iface{i.runtimeErrorString, "runtime error: makeslice: " + what + " out of range"}})
			}
			i.px.noteSymbolicAlloc(fr, s, es)
			return i.concAllocSize(s, "makeslice "+what)
		}
		n := asInt64(v)
		if n < 0 || n > limit {
			panic(targetPanic{iface{i.runtimeErrorString, "runtime error: makeslice: " + what + " out of range"}})
		}
		return n
	}
	n := checkOne(lenV, "len")
	c := n
	if capV != nil {
		// cap is the same SSA value as len for make([]T, n)
		if cs, ok := capV.(sym); ok {
			if ls, ok2 := lenV.(sym); ok2 && ls.t == cs.t {
				c = n
			} else {
				c = checkOne(capV, "cap")
			}
		} else {
			c = checkOne(capV, "cap")
		}
	}
	if c < n {
		panic(targetPanic{iface{i.runtimeErrorString, "runtime error: makeslice: cap out of range"}})
	}
	if int64(c)*max64(es, 1) > i.px.eng.cfg.MaxAllocBytes {
		i.px.abort(stBound, "allocation of %d elements of %d bytes exceeds engine limit", c, es)
	}
	return int(n), int(c)
}

// tolerantInitCall runs a call made directly by a dependency's package initialiser; a runtime
// error caused by unmodelled packages (zero values standing in for e.g. curve parameters) leaves
// the zero value in the global instead of aborting. Sites are recorded in the evidence.
func (i *interpreter) tolerantInitCall(fr *frame, instr *ssa.Call, fn value, args []value) (res value) {
	defer func() {
		if r := recover(); r != nil {
			if _, ok := r.(rtError); !ok {
				panic(r)
			}
			i.px.noteInitTolerance(i, fr)
			i.panicSite, i.panicStack = "", nil
			if instr.Type() == nil || isEmptyTuple(instr.Type()) {
				res = nil
			} else {
				res = zero(instr.Type())
			}
		}
	}()
	return i.call(fr, instr.Pos(), fn, args)
}

// concAllocSize concretises an allocation size. Sizes up to 64 are enumerated; when more values
// remain, one representative larger size stands for all of them (stated cut: beyond the bytes a
// reader can deliver, the size of a buffer only matters through "more than available").
func (i *interpreter) concAllocSize(s sym, what string) int64 {
	tc := i.px.tc
	w := kindWidth(s.k)
	small := tc.bvcmp(OBvUle, s.t, tc.BV(w, uint64(i.px.eng.cfg.AllocEnumerate)))
	if kindSigned(s.k) {
		small = tc.And(small, tc.bvcmp(OBvSle, tc.BV(w, 0), s.t))
	}
	if i.px.branch(small) {
		// 0..AllocEnumerate inclusive: its own limit, independent of the general concretize limit
		u := i.px.concretize(s.t, i.px.eng.cfg.AllocEnumerate+1, what)
		if kindSigned(s.k) {
			return signExt(u, kindWidth(s.k))
		}
		return int64(u)
	}
	i.px.res.Reached["engine:representative-allocation-size"] = true
	var v uint64
	if i.px.replaying() {
		d := i.px.prefix[i.px.pos]
		i.px.pos++
		if d.K != 'r' {
			i.px.abort(stEngineBug, "replay divergence: expected representative size, trace has %v", d)
		}
		v = uint64(d.V)
	} else {
		r, m := i.px.solver.CheckModel(tc, nil, []*Term{s.t})
		if r != Sat {
			i.px.abort(stInconclusive, "solver unknown while choosing a representative allocation size")
		}
		v = m[s.t.id].Uint64()
		// prefer a modest representative when feasible
		for _, cand := range []uint64{uint64(i.px.eng.cfg.AllocEnumerate) + 1, 4096} {
			if i.px.solver.Check(tc, tc.Eq(s.t, tc.BV(w, cand))) == Sat {
				v = cand
				break
			}
		}
	}
	i.px.res.Decisions++
	i.px.trace = append(i.px.trace, Decision{'r', int64(v)})
	i.px.assume(tc.Eq(s.t, tc.BV(w, v)))
	return int64(v)
}

func isEmptyTuple(t types.Type) bool {
	tt, ok := t.(*types.Tuple)
	return ok && tt.Len() == 0
}

func max64(a, b int64) int64 {
	if a > b {
		return a
	}
	return b
}

func (i *interpreter) lookup(instr *ssa.Lookup, x, idx value) value {
	switch x := x.(type) {
	case *omap:
		v, ok := x.lookup(i, idx)
		if !ok {
			v = zero(instr.X.Type().Underlying().(*types.Map).Elem())
		}
		if instr.CommaOk {
			return tuple{v, ok}
		}
		return v
	}
	panic(fmt.Sprintf("unexpected x type in Lookup: %T", x))
}

func (i *interpreter) prepareCall(fr *frame, call *ssa.CallCommon) (fn value, args []value) {
	v := fr.get(call.Value)
	if call.Method == nil {
		fn = v
	} else {
		recv := v.(iface)
		if recv.t == nil {
			rtPanic("invalid memory address or nil pointer dereference")
		}
		if f := lookupMethod(i, recv.t, call.Method); f == nil {
			panic(fmt.Sprintf("method set for dynamic type %v does not contain %s", recv.t, call.Method))
		} else {
			fn = f
		}
		args = append(args, recv.v)
	}
	for _, arg := range call.Args {
		args = append(args, fr.get(arg))
	}
	return
}

func (i *interpreter) call(caller *frame, callpos token.Pos, fn value, args []value) value {
	switch fn := fn.(type) {
	case *ssa.Function:
		if fn == nil {
			rtPanic("invalid memory address or nil pointer dereference")
		}
		return i.callSSA(caller, callpos, fn, args, nil)
	case *closure:
		return i.callSSA(caller, callpos, fn.Fn, args, fn.Env)
	case *ssa.Builtin:
		return i.callBuiltin(caller, callpos, fn, args)
	}
	panic(fmt.Sprintf("cannot call %T", fn))
}

func (i *interpreter) callSSA(caller *frame, callpos token.Pos, fn *ssa.Function, args []value, env []value) value {
	fr := &frame{i: i, caller: caller, fn: fn, callpos: callpos}
	if caller != nil {
		fr.g = caller.g
	}
	px := i.px
	info := i.prog.fnInfo(fn)
	if _, seen := px.res.Funcs[info.name]; !seen {
		px.res.Funcs[info.name] = info.class
	}
	if info.intrinsic != nil {
		return info.intrinsic(fr, args)
	}
	if info.skipInit {
		return nil
	}
	if fn.Blocks == nil {
		if px.inInit {
			return zero(fn.Signature.Results())
		}
		px.abort(stUnsupported, "call of function without body or model: %s", info.name)
	}
	if fn.TypeParams().Len() > 0 && len(fn.TypeArgs()) == 0 {
		panic("generic function body not instantiated: " + fn.String())
	}

	fr.slots = info.slotsOf(fn)
	fr.env = make([]value, len(fr.slots))
	fr.block = fn.Blocks[0]
	fr.locals = make([]value, len(fn.Locals))
	for k, l := range fn.Locals {
		fr.locals[k] = zero(mustDeref(l.Type()))
		fr.set(l, &fr.locals[k])
	}
	for k, p := range fn.Params {
		fr.set(p, args[k])
	}
	for k, fv := range fn.FreeVars {
		fr.set(fv, env[k])
	}
	if fr.g != nil {
		fr.g.top = fr
	}
	for fr.block != nil {
		i.runFrame(fr)
	}
	if fr.g != nil {
		fr.g.top = caller
	}
	return fr.result
}

func (i *interpreter) runFrame(fr *frame) {
	defer func() {
		if fr.block == nil {
			return // normal return
		}
		r := recover()
		i.classifyPanic(fr, r)
		fr.panicking = true
		fr.panic = r
		fr.runDefers()
		fr.block = fr.fn.Recover
	}()

	for {
		nonPhis := executePhis(fr)
		for _, instr := range nonPhis {
			if i.visitInstr(fr, instr) == kReturn {
				return
			}
		}
	}
}

func executePhis(fr *frame) []ssa.Instruction {
	firstNonPhi := -1
	for k, instr := range fr.block.Instrs {
		if _, ok := instr.(*ssa.Phi); !ok {
			firstNonPhi = k
			break
		}
	}
	nonPhis := fr.block.Instrs[firstNonPhi:]
	if firstNonPhi > 0 {
		phis := fr.block.Instrs[:firstNonPhi]
		predIndex := -1
		for k, p := range fr.block.Preds {
			if p == fr.prevBlock {
				predIndex = k
				break
			}
		}
		fr.phitemps = fr.phitemps[:0]
		for _, phi := range phis {
			phi := phi.(*ssa.Phi)
			fr.phitemps = append(fr.phitemps, fr.get(phi.Edges[predIndex]))
		}
		for k, phi := range phis {
			fr.set(phi.(*ssa.Phi), fr.phitemps[k])
		}
	}
	return nonPhis
}

// doRecover implements the recover() built-in.
func doRecover(caller *frame) value {
	if caller != nil && !caller.panicking &&
		caller.caller != nil && caller.caller.panicking {
		caller.caller.panicking = false
		p := caller.caller.panic
		caller.caller.panic = nil
		caller.i.panicSite = ""
		caller.i.panicStack = nil
		switch p := p.(type) {
		case targetPanic:
			return p.v
		case rtError:
			return iface{caller.i.runtimeErrorString, p.Error()}
		default:
			panic(fmt.Sprintf("unexpected panic type %T in target call to recover()", p))
		}
	}
	return iface{}
}

// goStmt starts an interpreted goroutine.
func (i *interpreter) goStmt(fr *frame, instr *ssa.Go, fn value, args []value) {
	s := i.px.sched
	name := "go@" + i.prog.fset.Position(instr.Pos()).String()
	if k := strings.LastIndex(name, "/"); k >= 0 {
		name = "go@" + name[k+1:]
	}
	s.spawn(name, func(g *gthread) {
		i.runGoroutine(g, instr.Pos(), fn, args)
	})
	s.yield(fr.g)
}

// runGoroutine runs fn as the body of goroutine g; an uncaught target panic crashes the process.
func (i *interpreter) runGoroutine(g *gthread, pos token.Pos, fn value, args []value) {
	root := &frame{i: i, g: g, fn: i.prog.rootFn}
	i.protected(g, func() { i.call(root, pos, fn, args) })
}

// protected runs body; an uncaught target panic becomes a crash candidate and ends the path.
func (i *interpreter) protected(g *gthread, body func()) {
	defer func() {
		r := recover()
		if r == nil {
			return
		}
		switch p := r.(type) {
		case pathEnd:
			panic(p)
		case targetPanic, rtError:
			msg := ""
			if tp, ok := p.(targetPanic); ok {
				msg = i.panicMessage(tp.v)
			} else {
				msg = p.(rtError).Error()
			}
			site, stack := i.panicSite, i.panicStack
			i.px.addCandidate("panic", "crash", msg, site, nil, stack)
			panic(pathEnd{stCrashed, fmt.Sprintf("uncaught panic in goroutine %s: %s at %s", g.name, msg, site)})
		default:
			panic(pathEnd{stEngineBug, fmt.Sprintf("host panic: %v\n%s", r, debug.Stack())})
		}
	}()
	body()
}

// panicMessage renders a target panic value.
func (i *interpreter) panicMessage(v value) string {
	if itf, ok := v.(iface); ok {
		if itf.t == nil {
			return "nil"
		}
		if s, ok := itf.v.(string); ok {
			return s
		}
		// error values: try Error() via interpreted method
		if m := i.prog.ssa.LookupMethod(itf.t, nil, "Error"); m != nil {
			var out value
			func() {
				defer func() {
					if r := recover(); r != nil {
						if pe, ok := r.(pathEnd); ok {
							panic(pe)
						}
					}
				}()
				out = i.call(nil, token.NoPos, m, []value{itf.v})
			}()
			if s, ok := out.(string); ok {
				return s
			}
		}
		return fmt.Sprintf("(%s) %s", itf.t, toString(itf.v))
	}
	return toString(v)
}
