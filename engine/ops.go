// Derived from golang.org/x/tools/go/ssa/interp (Copyright 2013 The Go Authors, BSD license,
// see LICENSE.x-tools); rewritten around a generic integer representation and symbolic scalars.

package main

import (
	"fmt"
	"go/constant"
	"go/token"
	"go/types"
	"math"
	"strings"
	"unicode/utf8"
	"unsafe"

	"golang.org/x/tools/go/ssa"
)

// If the target program panics, the interpreter panics with this type.
type targetPanic struct {
	v value
}

func (p targetPanic) String() string { return toString(p.v) }

// rtError is a Go runtime error raised by the target program (nil deref, index out of range, ...).
type rtError struct {
	msg string
}

func (e rtError) Error() string { return "runtime error: " + e.msg }

func rtPanic(format string, args ...interface{}) {
	panic(rtError{fmt.Sprintf(format, args...)})
}

// constValue returns the value of the constant with the dynamic type tag appropriate for c.Type().
func constValue(c *ssa.Const) value {
	if c.Value == nil {
		return zero(c.Type()) // typed zero
	}
	if t, ok := c.Type().Underlying().(*types.Basic); ok {
		switch t.Kind() {
		case types.Bool, types.UntypedBool:
			return constant.BoolVal(c.Value)
		case types.Int, types.UntypedInt, types.Int8, types.Int16, types.Int32, types.UntypedRune, types.Int64:
			return mkInt(t.Kind(), uint64(c.Int64()))
		case types.Uint, types.Uint8, types.Uint16, types.Uint32, types.Uint64, types.Uintptr:
			return mkInt(t.Kind(), c.Uint64())
		case types.Float32:
			return float32(c.Float64())
		case types.Float64, types.UntypedFloat:
			return c.Float64()
		case types.Complex64:
			return complex64(c.Complex128())
		case types.Complex128, types.UntypedComplex:
			return c.Complex128()
		case types.String, types.UntypedString:
			if c.Value.Kind() == constant.String {
				return constant.StringVal(c.Value)
			}
			return string(rune(c.Int64()))
		}
	}
	panic(fmt.Sprintf("constValue: %s", c))
}

// asInt64 converts a concrete integer to int64.
func asInt64(x value) int64 {
	if _, b, ok := intBits(x); ok {
		return int64(b)
	}
	panic(fmt.Sprintf("cannot convert %T to int64", x))
}

// zero returns a new "zero" value of the specified type.
func zero(t types.Type) value {
	switch t := t.(type) {
	case *types.Basic:
		if t.Kind() == types.UntypedNil {
			panic("untyped nil has no zero value")
		}
		if t.Info()&types.IsUntyped != 0 {
			t = types.Default(t).(*types.Basic)
		}
		switch t.Kind() {
		case types.Bool:
			return false
		case types.Float32:
			return float32(0)
		case types.Float64:
			return float64(0)
		case types.Complex64:
			return complex64(0)
		case types.Complex128:
			return complex128(0)
		case types.String:
			return ""
		case types.UnsafePointer:
			return unsafe.Pointer(nil)
		default:
			if isIntKind(t.Kind()) {
				return mkInt(t.Kind(), 0)
			}
			panic(fmt.Sprint("zero for unexpected type:", t))
		}
	case *types.Pointer:
		return (*value)(nil)
	case *types.Array:
		a := make(array, t.Len())
		for i := range a {
			a[i] = zero(t.Elem())
		}
		return a
	case *types.Named:
		return zero(t.Underlying())
	case *types.Alias:
		return zero(types.Unalias(t))
	case *types.Interface:
		return iface{}
	case *types.Slice:
		return []value(nil)
	case *types.Struct:
		s := make(structure, t.NumFields())
		for i := range s {
			s[i] = zero(t.Field(i).Type())
		}
		return s
	case *types.Tuple:
		if t.Len() == 1 {
			return zero(t.At(0).Type())
		}
		s := make(tuple, t.Len())
		for i := range s {
			s[i] = zero(t.At(i).Type())
		}
		return s
	case *types.Chan:
		return (*channel)(nil)
	case *types.Map:
		return (*omap)(nil)
	case *types.Signature:
		return (*ssa.Function)(nil)
	case *types.TypeParam:
		panic("zero of type parameter")
	}
	panic(fmt.Sprint("zero: unexpected ", t))
}

// ---------- symbolic helpers ----------

func isSym(v value) bool { _, ok := v.(sym); return ok }

// toTerm converts a scalar (concrete or symbolic bool/int) to a term.
func (i *interpreter) toTerm(v value) *Term {
	switch v := v.(type) {
	case sym:
		return v.t
	case bool:
		return i.px.tc.Bool(v)
	}
	if k, b, ok := intBits(v); ok {
		return i.px.tc.BV(kindWidth(k), b)
	}
	panic(fmt.Sprintf("toTerm: unsupported %T", v))
}

func scalarKind(v value) types.BasicKind {
	switch v := v.(type) {
	case sym:
		return v.k
	case bool:
		return types.Bool
	}
	if k, _, ok := intBits(v); ok {
		return k
	}
	panic(fmt.Sprintf("scalarKind: unsupported %T", v))
}

// mkSym wraps a term, folding constants back to concrete values.
func mkSym(k types.BasicKind, t *Term) value {
	if t.isConst() {
		if k == types.Bool {
			return t.c == 1
		}
		if t.bc == nil {
			v := t.c
			if kindSigned(k) {
				v = uint64(signExt(v, kindWidth(k)))
			}
			return mkInt(k, v)
		}
	}
	return sym{k, t}
}

// truth forces a (possibly symbolic) boolean to a concrete value on this path.
func (i *interpreter) truth(v value) bool {
	switch v := v.(type) {
	case bool:
		return v
	case sym:
		return i.px.branch(v.t)
	}
	panic(fmt.Sprintf("truth: %T", v))
}

// concInt forces an integer to a concrete value on this path (forking over feasible values).
func (i *interpreter) concInt(v value, what string) int64 {
	if s, ok := v.(sym); ok {
		if g := i.px.sched.cur; g != nil && g.top != nil {
			site, _ := i.where(g.top)
			what += " at " + site
		}
		u := i.px.concretize(s.t, i.px.eng.cfg.ConcretizeLimit, what)
		if kindSigned(s.k) {
			return signExt(u, kindWidth(s.k))
		}
		return int64(u)
	}
	return asInt64(v)
}

func (i *interpreter) boolAnd(a, b value) value {
	if x, ok := a.(bool); ok {
		if !x {
			return false
		}
		return b
	}
	if y, ok := b.(bool); ok {
		if !y {
			return false
		}
		return a
	}
	return mkSym(types.Bool, i.px.tc.And(i.toTerm(a), i.toTerm(b)))
}

func (i *interpreter) boolNot(a value) value {
	if x, ok := a.(bool); ok {
		return !x
	}
	return mkSym(types.Bool, i.px.tc.Not(i.toTerm(a)))
}

// ---------- strings ----------

func (s symstring) concrete() (string, bool) {
	b := make([]byte, len(s.b))
	for i, e := range s.b {
		c, ok := e.(uint8)
		if !ok {
			return "", false
		}
		b[i] = c
	}
	return string(b), true
}

func normString(b []value) value {
	s := symstring{b}
	if cs, ok := s.concrete(); ok {
		return cs
	}
	return s
}

func strBytes(v value) []value {
	switch v := v.(type) {
	case string:
		out := make([]value, len(v))
		for i := 0; i < len(v); i++ {
			out[i] = v[i]
		}
		return out
	case symstring:
		return v.b
	}
	panic(fmt.Sprintf("strBytes: %T", v))
}

func strLen(v value) int {
	switch v := v.(type) {
	case string:
		return len(v)
	case symstring:
		return len(v.b)
	}
	panic(fmt.Sprintf("strLen: %T", v))
}

func isStringVal(v value) bool {
	switch v.(type) {
	case string, symstring:
		return true
	}
	return false
}

// ---------- equality ----------

// eqValue returns x == y (a bool or a symbolic bool) per Go's equivalence relation for type t.
func (i *interpreter) eqValue(t types.Type, x, y value) value {
	switch x := x.(type) {
	case bool:
		if yb, ok := y.(bool); ok {
			return x == yb
		}
	case float32:
		return x == y.(float32)
	case float64:
		return x == y.(float64)
	case complex64:
		return x == y.(complex64)
	case complex128:
		return x == y.(complex128)
	case string:
		if ys, ok := y.(string); ok {
			return x == ys
		}
		return i.eqString(x, y)
	case symstring:
		return i.eqString(x, y)
	case *value:
		return x == y.(*value)
	case *channel:
		return x == y.(*channel)
	case unsafe.Pointer:
		return x == y.(unsafe.Pointer)
	case structure:
		ys := y.(structure)
		tStruct := t.Underlying().(*types.Struct)
		var res value = true
		for k, n := 0, tStruct.NumFields(); k < n; k++ {
			f := tStruct.Field(k)
			if f.Name() == "_" {
				continue
			}
			res = i.boolAnd(res, i.eqValue(f.Type(), x[k], ys[k]))
			if b, ok := res.(bool); ok && !b {
				return false
			}
		}
		return res
	case array:
		ya := y.(array)
		tElt := t.Underlying().(*types.Array).Elem()
		var res value = true
		for k := range x {
			res = i.boolAnd(res, i.eqValue(tElt, x[k], ya[k]))
			if b, ok := res.(bool); ok && !b {
				return false
			}
		}
		return res
	case iface:
		yi := y.(iface)
		if !sameType(x.t, yi.t) {
			return false
		}
		if x.t == nil {
			return true
		}
		if !types.Comparable(x.t) {
			panic(targetPanic{iface{i.runtimeErrorString, "runtime error: comparing uncomparable type " + x.t.String()}})
		}
		return i.eqValue(x.t, x.v, yi.v)
	}
	// integers / symbolic scalars
	if isSym(x) || isSym(y) {
		return mkSym(types.Bool, i.px.tc.Eq(i.toTerm(x), i.toTerm(y)))
	}
	if _, xb, ok := intBits(x); ok {
		_, yb, _ := intBits(y)
		return xb == yb
	}
	panic(fmt.Sprintf("comparing uncomparable type %s (%T)", t, x))
}

func (i *interpreter) eqString(x, y value) value {
	xb, yb := strBytes(x), strBytes(y)
	if len(xb) != len(yb) {
		return false
	}
	var res value = true
	for k := range xb {
		res = i.boolAnd(res, i.eqValue(nil, xb[k], yb[k]))
		if b, ok := res.(bool); ok && !b {
			return false
		}
	}
	return res
}

// eqnil returns the comparison x == y, where for map/func/slice types one operand is nil.
func (i *interpreter) eqnil(t types.Type, x, y value) value {
	switch t.Underlying().(type) {
	case *types.Map, *types.Signature, *types.Slice:
		isNil := func(v value) bool {
			switch v := v.(type) {
			case *omap:
				return v == nil
			case *ssa.Function:
				return v == nil
			case *closure:
				return v == nil
			case *ssa.Builtin:
				return v == nil
			case []value:
				return v == nil
			}
			panic(fmt.Sprintf("eqnil(%s): illegal dynamic type: %T", t, v))
		}
		return isNil(x) && isNil(y)
	}
	return i.eqValue(t, x, y)
}

// ---------- binary operators ----------

func (i *interpreter) binop(op token.Token, t types.Type, x, y value) value {
	switch op {
	case token.EQL:
		return i.eqnil(t, x, y)
	case token.NEQ:
		return i.boolNot(i.eqnil(t, x, y))
	}
	if isSym(x) || isSym(y) {
		return i.symBinop(op, x, y)
	}
	if xk, xb, ok := intBits(x); ok {
		w := kindWidth(xk)
		signed := kindSigned(xk)
		switch op {
		case token.SHL, token.SHR:
			yk, yb, _ := intBits(y)
			if kindSigned(yk) && int64(yb) < 0 {
				rtPanic("negative shift amount")
			}
			if op == token.SHL {
				if yb >= uint64(w) {
					return mkInt(xk, 0)
				}
				return mkInt(xk, xb<<yb)
			}
			if signed {
				if yb >= uint64(w) {
					yb = uint64(w - 1)
				}
				return mkInt(xk, uint64(int64(xb)>>yb))
			}
			if yb >= uint64(w) {
				return mkInt(xk, 0)
			}
			return mkInt(xk, (xb&mask(w))>>yb)
		}
		_, yb, ok2 := intBits(y)
		if !ok2 {
			panic(fmt.Sprintf("binop %s: mixed operand types %T %T", op, x, y))
		}
		switch op {
		case token.ADD:
			return mkInt(xk, xb+yb)
		case token.SUB:
			return mkInt(xk, xb-yb)
		case token.MUL:
			return mkInt(xk, xb*yb)
		case token.QUO, token.REM:
			if yb&mask(w) == 0 {
				rtPanic("integer divide by zero")
			}
			if signed {
				sx, sy := int64(xb), int64(yb)
				if sy == -1 {
					if op == token.QUO {
						return mkInt(xk, uint64(-sx))
					}
					return mkInt(xk, 0)
				}
				if op == token.QUO {
					return mkInt(xk, uint64(sx/sy))
				}
				return mkInt(xk, uint64(sx%sy))
			}
			ux, uy := xb&mask(w), yb&mask(w)
			if op == token.QUO {
				return mkInt(xk, ux/uy)
			}
			return mkInt(xk, ux%uy)
		case token.AND:
			return mkInt(xk, xb&yb)
		case token.OR:
			return mkInt(xk, xb|yb)
		case token.XOR:
			return mkInt(xk, xb^yb)
		case token.AND_NOT:
			return mkInt(xk, xb&^yb)
		case token.LSS, token.LEQ, token.GTR, token.GEQ:
			var lt, eq bool
			if signed {
				lt, eq = int64(xb) < int64(yb), xb == yb
			} else {
				lt, eq = xb&mask(w) < yb&mask(w), xb&mask(w) == yb&mask(w)
			}
			switch op {
			case token.LSS:
				return lt
			case token.LEQ:
				return lt || eq
			case token.GTR:
				return !lt && !eq
			default:
				return !lt
			}
		}
	}
	switch x := x.(type) {
	case float64:
		y := y.(float64)
		switch op {
		case token.ADD:
			return x + y
		case token.SUB:
			return x - y
		case token.MUL:
			return x * y
		case token.QUO:
			return x / y
		case token.LSS:
			return x < y
		case token.LEQ:
			return x <= y
		case token.GTR:
			return x > y
		case token.GEQ:
			return x >= y
		}
	case float32:
		y := y.(float32)
		switch op {
		case token.ADD:
			return x + y
		case token.SUB:
			return x - y
		case token.MUL:
			return x * y
		case token.QUO:
			return x / y
		case token.LSS:
			return x < y
		case token.LEQ:
			return x <= y
		case token.GTR:
			return x > y
		case token.GEQ:
			return x >= y
		}
	case string:
		if ys, ok := y.(string); ok {
			switch op {
			case token.ADD:
				return x + ys
			case token.LSS:
				return x < ys
			case token.LEQ:
				return x <= ys
			case token.GTR:
				return x > ys
			case token.GEQ:
				return x >= ys
			}
		}
		if op == token.ADD {
			return normString(append(append([]value{}, strBytes(x)...), strBytes(y)...))
		}
	case symstring:
		if op == token.ADD {
			return normString(append(append([]value{}, strBytes(x)...), strBytes(y)...))
		}
		i.px.abort(stUnsupported, "ordering comparison of symbolic strings")
	case bool:
		// && and || are lowered to control flow; only ==/!= reach here.
	}
	panic(fmt.Sprintf("invalid binary op: %T %s %T", x, op, y))
}

func (i *interpreter) symBinop(op token.Token, x, y value) value {
	tc := i.px.tc
	xk := scalarKind(x)
	if xk == types.Bool {
		panic(fmt.Sprintf("symBinop on bool: %s", op))
	}
	w := kindWidth(xk)
	signed := kindSigned(xk)
	a := i.toTerm(x)
	switch op {
	case token.SHL, token.SHR:
		yk := scalarKind(y)
		b := i.toTerm(y)
		if kindSigned(yk) {
			neg := tc.bvcmp(OBvSlt, b, tc.BV(kindWidth(yk), 0))
			if i.px.branch(neg) {
				rtPanic("negative shift amount")
			}
		}
		yw := kindWidth(yk)
		// bring the count to width w, saturating when it does not fit
		var cnt *Term
		if yw == w {
			cnt = b
		} else if yw < w {
			cnt = tc.Zext(b, w)
		} else {
			big := tc.Not(tc.Eq(tc.Extract(b, yw-1, w), tc.BV(yw-w, 0)))
			cnt = tc.Ite(big, tc.BV(w, uint64(w)), tc.Extract(b, w-1, 0))
		}
		switch {
		case op == token.SHL:
			return mkSym(xk, tc.BvShl(a, cnt))
		case signed:
			return mkSym(xk, tc.BvAshr(a, cnt))
		default:
			return mkSym(xk, tc.BvLshr(a, cnt))
		}
	}
	b := i.toTerm(y)
	if a.sort != b.sort {
		panic(fmt.Sprintf("symBinop %s: sort mismatch %v %v", op, a.sort, b.sort))
	}
	switch op {
	case token.ADD:
		return mkSym(xk, tc.BvAdd(a, b))
	case token.SUB:
		return mkSym(xk, tc.BvSub(a, b))
	case token.MUL:
		return mkSym(xk, tc.BvMul(a, b))
	case token.QUO, token.REM:
		if i.px.branch(tc.Eq(b, tc.BV(w, 0))) {
			rtPanic("integer divide by zero")
		}
		var o Op
		switch {
		case op == token.QUO && signed:
			o = OBvSdiv
		case op == token.QUO:
			o = OBvUdiv
		case signed:
			o = OBvSrem
		default:
			o = OBvUrem
		}
		return mkSym(xk, tc.bvbin(o, a, b))
	case token.AND:
		return mkSym(xk, tc.BvAnd(a, b))
	case token.OR:
		return mkSym(xk, tc.BvOr(a, b))
	case token.XOR:
		return mkSym(xk, tc.BvXor(a, b))
	case token.AND_NOT:
		return mkSym(xk, tc.BvAnd(a, tc.BvNot(b)))
	case token.LSS:
		if signed {
			return mkSym(types.Bool, tc.bvcmp(OBvSlt, a, b))
		}
		return mkSym(types.Bool, tc.bvcmp(OBvUlt, a, b))
	case token.LEQ:
		if signed {
			return mkSym(types.Bool, tc.bvcmp(OBvSle, a, b))
		}
		return mkSym(types.Bool, tc.bvcmp(OBvUle, a, b))
	case token.GTR:
		if signed {
			return mkSym(types.Bool, tc.bvcmp(OBvSlt, b, a))
		}
		return mkSym(types.Bool, tc.bvcmp(OBvUlt, b, a))
	case token.GEQ:
		if signed {
			return mkSym(types.Bool, tc.bvcmp(OBvSle, b, a))
		}
		return mkSym(types.Bool, tc.bvcmp(OBvUle, b, a))
	}
	panic(fmt.Sprintf("symBinop: invalid op %s", op))
}

func (i *interpreter) unop(fr *frame, instr *ssa.UnOp, x value) value {
	switch instr.Op {
	case token.ARROW: // receive
		v, ok := i.chanRecv(fr, x.(*channel), instr.X.Type().Underlying().(*types.Chan).Elem())
		if instr.CommaOk {
			return tuple{v, ok}
		}
		return v
	case token.SUB:
		switch x := x.(type) {
		case sym:
			return mkSym(x.k, i.px.tc.BvNeg(x.t))
		case float32:
			return -x
		case float64:
			return -x
		}
		if k, b, ok := intBits(x); ok {
			return mkInt(k, -b)
		}
	case token.MUL:
		p := x.(*value)
		if p == nil {
			rtPanic("invalid memory address or nil pointer dereference")
		}
		return load(mustDeref(instr.X.Type()), p)
	case token.NOT:
		return i.boolNot(x)
	case token.XOR:
		if s, ok := x.(sym); ok {
			return mkSym(s.k, i.px.tc.BvNot(s.t))
		}
		if k, b, ok := intBits(x); ok {
			return mkInt(k, ^b)
		}
	}
	panic(fmt.Sprintf("invalid unary op %s %T", instr.Op, x))
}

// typeAssert checks whether dynamic type of itf is instr.AssertedType.
func typeAssert(i *interpreter, instr *ssa.TypeAssert, itf iface) value {
	var v value
	err := ""
	if itf.t == nil {
		err = fmt.Sprintf("interface conversion: interface is nil, not %s", instr.AssertedType)
	} else if idst, ok := instr.AssertedType.Underlying().(*types.Interface); ok {
		v = itf
		err = checkInterface(i, idst, itf)
	} else if types.Identical(itf.t, instr.AssertedType) {
		v = itf.v // extract value
	} else if instr.CommaOk {
		err = "mismatch"
	} else {
		err = fmt.Sprintf("interface conversion: interface is %s, not %s", itf.t, instr.AssertedType)
	}
	if err != "" {
		if !instr.CommaOk {
			panic(targetPanic{iface{i.runtimeErrorString, err}})
		}
		return tuple{zero(instr.AssertedType), false}
	}
	if instr.CommaOk {
		return tuple{v, true}
	}
	return v
}

func checkInterface(i *interpreter, itype *types.Interface, x iface) string {
	if meth, _ := types.MissingMethod(x.t, itype, true); meth != nil {
		return fmt.Sprintf("interface conversion: %v is not %v: missing method %s",
			x.t, itype, meth.Name())
	}
	return "" // ok
}

// ---------- slices ----------

var sizeClasses = []int{0, 8, 16, 24, 32, 48, 64, 80, 96, 112, 128, 144, 160, 176, 192, 208, 224, 240, 256, 288, 320, 352, 384, 416, 448, 480, 512, 576, 640, 704, 768, 896, 1024, 1152, 1280, 1408, 1536, 1792, 2048, 2304, 2688, 3072, 3200, 3456, 4096, 4864, 5120, 5456, 6144, 6528, 6784, 6912, 8192, 9472, 9728, 10240, 10880, 12288, 13568, 14336, 16384, 18432, 19072, 20480, 21760, 24576, 27264, 28672, 32768}

func roundupsize(n int) int {
	if n <= 32768 {
		for _, c := range sizeClasses {
			if c >= n {
				return c
			}
		}
	}
	return (n + 8191) &^ 8191
}

// growCap mirrors runtime.growslice's capacity computation (go1.20+).
func growCap(oldCap, newLen, elemSize int) int {
	newcap := oldCap
	doublecap := newcap + newcap
	if newLen > doublecap {
		newcap = newLen
	} else {
		const threshold = 256
		if oldCap < threshold {
			newcap = doublecap
		} else {
			for {
				newcap += (newcap + 3*threshold) >> 2
				if uint(newcap) >= uint(newLen) {
					break
				}
			}
		}
	}
	if elemSize <= 0 {
		return newcap
	}
	mem := roundupsize(newcap * elemSize)
	return mem / elemSize
}

func (i *interpreter) appendValues(elemT types.Type, dst []value, src []value) []value {
	if len(src) == 0 {
		return dst
	}
	n := len(dst) + len(src)
	if n <= cap(dst) {
		out := dst[:n]
		copy(out[len(dst):], src)
		return out
	}
	es := int(i.sizes.Sizeof(elemT))
	nc := growCap(cap(dst), n, es)
	if nc < n {
		nc = n
	}
	out := make([]value, n, nc)
	copy(out, dst)
	copy(out[len(dst):], src)
	// the spare capacity holds zero values
	if nc > n {
		z := out[:nc]
		for k := n; k < nc; k++ {
			z[k] = zero(elemT)
		}
	}
	return out
}

// sliceOp returns x[lo:hi:max].  Any of lo, hi and max may be nil.
func (i *interpreter) sliceOp(x, lo, hi, max value) value {
	var Len, Cap int
	switch x := x.(type) {
	case string:
		Len = len(x)
		Cap = Len
	case symstring:
		Len = len(x.b)
		Cap = Len
	case []value:
		Len = len(x)
		Cap = cap(x)
	case *value: // *array
		if x == nil {
			rtPanic("invalid memory address or nil pointer dereference")
		}
		a := (*x).(array)
		Len = len(a)
		Cap = cap(a)
	}
	l := int64(0)
	if lo != nil {
		l = i.concInt(lo, "slice low bound")
	}
	h := int64(Len)
	if hi != nil {
		h = i.concInt(hi, "slice high bound")
	}
	m := int64(Cap)
	if max != nil {
		m = i.concInt(max, "slice max bound")
	}
	if _, isStr := x.(string); isStr || isStringVal(x) {
		if h < 0 || h > int64(Len) {
			rtPanic("slice bounds out of range [:%d] with length %d", h, Len)
		}
	} else {
		if m < 0 || m > int64(Cap) {
			rtPanic("slice bounds out of range [::%d] with capacity %d", m, Cap)
		}
		if h < 0 || h > m {
			if max == nil {
				rtPanic("slice bounds out of range [:%d] with capacity %d", h, Cap)
			}
			rtPanic("slice bounds out of range [:%d:%d]", h, m)
		}
	}
	if l < 0 || l > h {
		rtPanic("slice bounds out of range [%d:%d]", l, h)
	}
	switch x := x.(type) {
	case string:
		return x[l:h]
	case symstring:
		return normString(x.b[l:h])
	case []value:
		if x == nil {
			return []value(nil)
		}
		return x[l:h:m]
	case *value: // *array
		a := (*x).(array)
		return []value(a)[l:h:m]
	}
	panic(fmt.Sprintf("slice: unexpected X type: %T", x))
}

// indexRead returns seq[idx] with bounds check; a symbolic index over scalars becomes an ite-chain.
func (i *interpreter) indexRead(seq []value, idx value, what string) value {
	if s, ok := idx.(sym); ok {
		tc := i.px.tc
		w := kindWidth(s.k)
		n := len(seq)
		inRange := i.inRangeTerm(s, n)
		if !i.px.branch(inRange) {
			rtPanic("index out of range [symbolic] with length %d", n)
		}
		scalar := n <= 256 && n > 0
		if scalar {
			for _, e := range seq {
				switch e.(type) {
				case sym, bool:
				default:
					if _, _, ok := intBits(e); !ok {
						scalar = false
					}
				}
				if !scalar {
					break
				}
			}
		}
		if scalar {
			k := scalarKind(seq[0])
			res := i.toTerm(seq[n-1])
			for j := n - 2; j >= 0; j-- {
				res = tc.Ite(tc.Eq(s.t, tc.BV(w, uint64(j))), i.toTerm(seq[j]), res)
			}
			return mkSym(k, res)
		}
		j := i.concInt(idx, what)
		return seq[j]
	}
	j := asInt64(idx)
	if j < 0 || j >= int64(len(seq)) {
		rtPanic("index out of range [%d] with length %d", j, len(seq))
	}
	return seq[j]
}

// inRangeTerm builds 0 <= s < n for an index of any integer kind (n may exceed the kind's range).
func (i *interpreter) inRangeTerm(s sym, n int) *Term {
	tc := i.px.tc
	w := kindWidth(s.k)
	if kindSigned(s.k) {
		lo := tc.bvcmp(OBvSle, tc.BV(w, 0), s.t)
		if w < 64 && uint64(n) >= uint64(1)<<uint(w-1) {
			return lo
		}
		return tc.And(lo, tc.bvcmp(OBvSlt, s.t, tc.BV(w, uint64(n))))
	}
	if w < 64 && uint64(n) >= uint64(1)<<uint(w) {
		return tc.Bool(true)
	}
	return tc.bvcmp(OBvUlt, s.t, tc.BV(w, uint64(n)))
}

func (i *interpreter) indexAddr(seq []value, idx value) *value {
	j := i.concIndex(idx, len(seq))
	return &seq[j]
}

// concIndex concretizes an index, raising the bounds panic on the out-of-range side.
func (i *interpreter) concIndex(idx value, n int) int64 {
	if s, ok := idx.(sym); ok {
		inRange := i.inRangeTerm(s, n)
		if !i.px.branch(inRange) {
			rtPanic("index out of range [symbolic] with length %d", n)
		}
		return i.concInt(idx, "index")
	}
	j := asInt64(idx)
	if j < 0 || j >= int64(n) {
		rtPanic("index out of range [%d] with length %d", j, n)
	}
	return j
}

// ---------- builtins ----------

func (i *interpreter) callBuiltin(caller *frame, callpos token.Pos, fn *ssa.Builtin, args []value) value {
	switch fn.Name() {
	case "append":
		if len(args) == 1 {
			return args[0]
		}
		sig := fn.Type().(*types.Signature)
		elemT := sig.Params().At(0).Type().Underlying().(*types.Slice).Elem()
		if isStringVal(args[1]) {
			return i.appendValues(elemT, args[0].([]value), strBytes(args[1]))
		}
		return i.appendValues(elemT, args[0].([]value), args[1].([]value))

	case "copy": // copy([]T, []T) int or copy([]byte, string) int
		src := args[1]
		if isStringVal(src) {
			src = strBytes(src)
		}
		return copy(args[0].([]value), src.([]value))

	case "close":
		i.chanClose(caller, args[0].(*channel))
		return nil

	case "delete":
		m := args[0].(*omap)
		if m != nil {
			m.remove(i, args[1])
		}
		return nil

	case "print", "println":
		return nil

	case "len":
		switch x := args[0].(type) {
		case string:
			return len(x)
		case symstring:
			return len(x.b)
		case array:
			return len(x)
		case *value:
			return len((*x).(array))
		case []value:
			return len(x)
		case *omap:
			return x.length()
		case *channel:
			return x.length()
		default:
			panic(fmt.Sprintf("len: illegal operand: %T", x))
		}

	case "cap":
		switch x := args[0].(type) {
		case array:
			return cap(x)
		case *value:
			return cap((*x).(array))
		case []value:
			return cap(x)
		case *channel:
			return x.capacity()
		default:
			panic(fmt.Sprintf("cap: illegal operand: %T", x))
		}

	case "min", "max":
		x := args[0]
		for _, y := range args[1:] {
			var c value
			if fn.Name() == "min" {
				c = i.binop(token.LSS, nil, y, x)
			} else {
				c = i.binop(token.GTR, nil, y, x)
			}
			if i.truth(c) {
				x = y
			}
		}
		return x

	case "panic":
		panic(targetPanic{args[0]})

	case "recover":
		return doRecover(caller)

	case "ssa:wrapnilchk":
		recv := args[0]
		if recv.(*value) == nil {
			recvType := args[1]
			methodName := args[2]
			rtPanic("value method %s.%s called using nil *%s pointer", recvType, methodName, recvType)
		}
		return recv

	case "ssa:deferstack":
		return &caller.defers
	}
	panic("unknown built-in: " + fn.Name())
}

type stringIter struct {
	s string
	i int
}

func (it *stringIter) next() tuple {
	if it.i >= len(it.s) {
		return tuple{false, nil, nil}
	}
	r, n := utf8.DecodeRuneInString(it.s[it.i:])
	t := tuple{true, it.i, r}
	it.i += n
	return t
}

func (i *interpreter) rangeIter(x value, t types.Type) iter {
	switch x := x.(type) {
	case *omap:
		if x == nil {
			return &omapIter{}
		}
		return &omapIter{es: append([]*mentry(nil), x.entries...)}
	case string:
		return &stringIter{s: x}
	case symstring:
		i.px.abort(stUnsupported, "range over symbolic string")
	}
	panic(fmt.Sprintf("cannot range over %T", x))
}

// ---------- conversions ----------

func (i *interpreter) conv(t_dst, t_src types.Type, x value) value {
	ut_src := t_src.Underlying()
	ut_dst := t_dst.Underlying()

	switch ut_src := ut_src.(type) {
	case *types.Pointer:
		if b, ok := ut_dst.(*types.Basic); ok && b.Kind() == types.UnsafePointer {
			return unsafe.Pointer(x.(*value))
		}
	case *types.Slice:
		// []byte or []rune -> string
		switch ut_src.Elem().Underlying().(*types.Basic).Kind() {
		case types.Byte:
			return normString(append([]value{}, x.([]value)...))
		case types.Rune:
			xs := x.([]value)
			r := make([]rune, 0, len(xs))
			for k := range xs {
				rv, ok := xs[k].(rune)
				if !ok {
					i.px.abort(stUnsupported, "string([]rune) with symbolic runes")
				}
				r = append(r, rv)
			}
			return string(r)
		}
	case *types.Basic:
		// string -> []rune, []byte or string?
		if isStringVal(x) {
			switch ut_dst := ut_dst.(type) {
			case *types.Slice:
				switch ut_dst.Elem().Underlying().(*types.Basic).Kind() {
				case types.Rune:
					s, ok := x.(string)
					if !ok {
						i.px.abort(stUnsupported, "[]rune(symbolic string)")
					}
					var res []value
					for _, r := range []rune(s) {
						res = append(res, r)
					}
					return res
				case types.Byte:
					b := strBytes(x)
					res := make([]value, len(b))
					copy(res, b)
					if len(res) == 0 {
						return []value{}
					}
					return res
				}
			case *types.Basic:
				if ut_dst.Kind() == types.String {
					return x
				}
			}
			break
		}
		if ut_src.Kind() == types.UnsafePointer {
			return zero(t_dst)
		}
		dk := ut_dst.(*types.Basic)
		// symbolic integer conversions
		if s, ok := x.(sym); ok {
			if s.k == types.Bool {
				return x
			}
			if dk.Kind() == types.Float64 || dk.Kind() == types.Float32 {
				// floats only feed log fields and human-readable sizes in the code under test;
				// the approximation is recorded so a run that depends on it can be identified
				i.px.res.Reached["engine:symbolic-integer-to-float-approximated-as-0"] = true
				if dk.Kind() == types.Float32 {
					return float32(0)
				}
				return float64(0)
			}
			if !isIntKind(dk.Kind()) {
				i.px.abort(stUnsupported, "conversion of symbolic integer to %s", dk)
			}
			return mkSym(dk.Kind(), i.resize(s.t, kindWidth(s.k), kindSigned(s.k), kindWidth(dk.Kind())))
		}
		if k, b, ok := intBits(x); ok {
			switch {
			case dk.Kind() == types.String:
				return string(rune(int64(b)))
			case isIntKind(dk.Kind()):
				if !kindSigned(k) {
					b &= mask(kindWidth(k))
				}
				return mkInt(dk.Kind(), b)
			case dk.Kind() == types.Float32:
				if kindSigned(k) {
					return float32(int64(b))
				}
				return float32(b & mask(kindWidth(k)))
			case dk.Kind() == types.Float64:
				if kindSigned(k) {
					return float64(int64(b))
				}
				return float64(b & mask(kindWidth(k)))
			}
		}
		var f float64
		isF := false
		switch x := x.(type) {
		case float32:
			f, isF = float64(x), true
		case float64:
			f, isF = x, true
		case complex128:
			if dk.Kind() == types.Complex64 {
				return complex64(x)
			}
			return x
		case complex64:
			if dk.Kind() == types.Complex128 {
				return complex128(x)
			}
			return x
		case bool:
			return x
		}
		if isF {
			switch {
			case dk.Kind() == types.Float32:
				return float32(f)
			case dk.Kind() == types.Float64:
				return f
			case isIntKind(dk.Kind()):
				if kindSigned(dk.Kind()) {
					return mkInt(dk.Kind(), uint64(int64(f)))
				}
				if f < 0 {
					return mkInt(dk.Kind(), uint64(int64(f)))
				}
				if f >= math.MaxInt64 {
					return mkInt(dk.Kind(), uint64(f))
				}
				return mkInt(dk.Kind(), uint64(f))
			}
		}
	}
	panic(fmt.Sprintf("unsupported conversion: %s  -> %s, dynamic type %T", t_src, t_dst, x))
}

func (i *interpreter) resize(t *Term, from int, signed bool, to int) *Term {
	tc := i.px.tc
	switch {
	case to == from:
		return t
	case to < from:
		return tc.Extract(t, to-1, 0)
	case signed:
		return tc.Sext(t, to)
	default:
		return tc.Zext(t, to)
	}
}

func sliceToArrayPointer(t_dst, t_src types.Type, x value) value {
	if _, ok := t_src.Underlying().(*types.Slice); ok {
		if ptr, ok := t_dst.Underlying().(*types.Pointer); ok {
			if arr, ok := ptr.Elem().Underlying().(*types.Array); ok {
				x := x.([]value)
				if arr.Len() > int64(len(x)) {
					rtPanic("cannot convert slice with length %d to array or pointer to array with length %d", len(x), arr.Len())
				}
				if x == nil {
					return zero(t_dst)
				}
				v := value(array(x[:arr.Len()]))
				return &v
			}
		}
	}
	panic(fmt.Sprintf("unsupported conversion: %s  -> %s, dynamic type %T", t_src, t_dst, x))
}

var _ = strings.Builder{}
