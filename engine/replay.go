package main

// Native replay: counterexamples and sampled passing paths are re-run against the natively
// compiled real code (go test -c with an overlay; nothing is written under /repo).

import (
	"bytes"
	"encoding/json"
	"fmt"
	"go/ast"
	"go/parser"
	"go/printer"
	"go/token"
	"os"
	"os/exec"
	"path/filepath"
	"strings"
	"time"
)

type replayCase struct {
	Harness string           `json:"harness"`
	Nondets []NondetVal      `json:"nondets"`
	Params  map[string]int64 `json:"params"`
}

type replayer struct {
	repo, verif string
	scale       map[string]int64
	overlay     map[string][]byte
	tmp         string
	bins        map[string]string // pkg -> test binary
	buildErr    map[string]string
}

func newReplayer(repo, verif string, scale map[string]int64, overlay map[string][]byte) *replayer {
	tmp, _ := os.MkdirTemp("", "symgo-replay-")
	return &replayer{repo: repo, verif: verif, scale: scale, overlay: overlay, tmp: tmp, bins: map[string]string{}, buildErr: map[string]string{}}
}

func (r *replayer) cleanup() {
	if r.tmp != "" {
		os.RemoveAll(r.tmp)
	}
}

func goEnv() []string {
	return append(os.Environ(), "GOFLAGS=-mod=mod", "GOPROXY=off", "GOSUMDB=off", "GOTOOLCHAIN=local", "CGO_ENABLED=0")
}

// build compiles the test binary of pkg (import path) with harness overlay + generated test.
func (r *replayer) build(pkg string) (string, error) {
	if b, ok := r.bins[pkg]; ok {
		return b, nil
	}
	if e, ok := r.buildErr[pkg]; ok {
		return "", fmt.Errorf("%s", e)
	}
	rel := strings.TrimPrefix(strings.TrimPrefix(pkg, "github.com/tokenized/bitcoin_reader"), "/")
	dir := filepath.Join(r.repo, rel)
	pkgName := "bitcoin_reader"
	if rel != "" {
		pkgName = filepath.Base(rel)
	}
	repl := map[string]string{}
	n := 0
	for virt, src := range r.overlay {
		n++
		real := filepath.Join(r.tmp, fmt.Sprintf("ov%d_%s", n, filepath.Base(virt)))
		if err := os.WriteFile(real, src, 0o644); err != nil {
			return "", err
		}
		repl[virt] = real
	}
	testSrc := fmt.Sprintf(`package %s

import (
	"os"
	"testing"
)

func TestVerifReplay(t *testing.T) {
	if n := verifRunCases(os.Getenv("VERIF_REPLAY_FILE")); n != 0 {
		t.Fatalf("%%d case(s) failed", n)
	}
}
`, pkgName)
	testReal := filepath.Join(r.tmp, "replay_"+pkgName+"_test.go")
	os.WriteFile(testReal, []byte(testSrc), 0o644)
	repl[filepath.Join(dir, "zz_verif_replay_test.go")] = testReal
	ovJSON, _ := json.Marshal(map[string]interface{}{"Replace": repl})
	ovPath := filepath.Join(r.tmp, "overlay_"+pkgName+".json")
	os.WriteFile(ovPath, ovJSON, 0o644)
	bin := filepath.Join(r.tmp, pkgName+".test")
	cmd := exec.Command("go", "test", "-c", "-vet=off", "-overlay", ovPath, "-o", bin, ".")
	cmd.Dir = dir
	cmd.Env = goEnv()
	out, err := cmd.CombinedOutput()
	if err != nil {
		msg := fmt.Sprintf("native build failed: %v\n%s", err, out)
		r.buildErr[pkg] = msg
		return "", fmt.Errorf("%s", msg)
	}
	r.bins[pkg] = bin
	return bin, nil
}

type caseResult struct {
	Status   string // ok | assert-fail | panic | assumed-away | missing
	Fails    []string
	PanicMsg string
	Observes []string
}

// run executes the cases natively and parses the per-case transcript.
func (r *replayer) run(pkg string, cases []replayCase, timeout time.Duration) ([]caseResult, string, error) {
	bin, err := r.build(pkg)
	if err != nil {
		return nil, "", err
	}
	rel := strings.TrimPrefix(strings.TrimPrefix(pkg, "github.com/tokenized/bitcoin_reader"), "/")
	file := filepath.Join(r.tmp, fmt.Sprintf("cases_%d.json", time.Now().UnixNano()))
	b, _ := json.Marshal(cases)
	os.WriteFile(file, b, 0o644)
	cmd := exec.Command(bin, "-test.run", "^TestVerifReplay$", "-test.timeout", timeout.String())
	cmd.Dir = filepath.Join(r.repo, rel)
	cmd.Env = append(goEnv(), "VERIF_REPLAY_FILE="+file)
	var outb bytes.Buffer
	cmd.Stdout = &outb
	cmd.Stderr = &outb
	cmd.Run()
	out := outb.String()
	res := make([]caseResult, len(cases))
	for k := range res {
		res[k].Status = "missing"
	}
	cur := -1
	for _, line := range strings.Split(out, "\n") {
		switch {
		case strings.HasPrefix(line, "VERIF-CASE-BEGIN "):
			fmt.Sscanf(line, "VERIF-CASE-BEGIN %d", &cur)
		case strings.HasPrefix(line, "VERIF-OBS ") && cur >= 0 && cur < len(res):
			res[cur].Observes = append(res[cur].Observes, strings.TrimPrefix(line, "VERIF-OBS "))
		case strings.HasPrefix(line, "VERIF-ASSERT-FAIL ") && cur >= 0 && cur < len(res):
			res[cur].Fails = append(res[cur].Fails, strings.TrimPrefix(line, "VERIF-ASSERT-FAIL "))
		case strings.HasPrefix(line, "VERIF-PANIC ") && cur >= 0 && cur < len(res):
			res[cur].PanicMsg = strings.TrimPrefix(line, "VERIF-PANIC ")
		case strings.HasPrefix(line, "VERIF-CASE-END ") && cur >= 0 && cur < len(res):
			var k int
			var st string
			fmt.Sscanf(line, "VERIF-CASE-END %d %s", &k, &st)
			res[cur].Status = st
			cur = -1
		}
	}
	// a crash outside the harness goroutine kills the process: attribute it to the running case
	if cur >= 0 && cur < len(res) && res[cur].Status == "missing" {
		if strings.Contains(out, "test timed out") {
			res[cur].Status = "timeout"
		} else if idx := strings.Index(out, "panic: "); idx >= 0 {
			res[cur].Status = "panic"
			res[cur].PanicMsg = firstLine(out[idx+7:])
		} else if strings.Contains(out, "fatal error: ") {
			idx := strings.Index(out, "fatal error: ")
			res[cur].Status = "panic"
			res[cur].PanicMsg = firstLine(out[idx:])
		} else if strings.Contains(out, "test timed out") {
			res[cur].Status = "timeout"
		}
	}
	return res, out, nil
}

// nativeValidate replays fresh candidates and validates sampled passing paths.
func nativeValidate(rp *replayer, rep *RunReport, fresh []*Candidate, property string, verbose bool) {
	pkg := rep.Cfg.Pkg
	// 1. passing samples, batched
	var cases []replayCase
	for _, s := range rep.Agg.Samples {
		cases = append(cases, replayCase{Harness: rep.Cfg.Harness, Nondets: s.Model, Params: rep.Cfg.Params})
	}
	if rep.Cfg.SkipNativeValidation != "" {
		cases = nil
	}
	if len(cases) > 0 {
		res, out, err := rp.run(pkg, cases, 60*time.Second)
		if err != nil {
			rep.ValidMism = append(rep.ValidMism, firstLine(err.Error()))
			if verbose {
				fmt.Println(err)
			}
		} else {
			for k, r := range res {
				s := rep.Agg.Samples[k]
				if strings.HasPrefix(r.Status, "assumed-away") {
					continue // the harness declares this case not reproducible natively
				}
				if r.Status == "timeout" && rep.Cfg.NativeTimeoutIsStall {
					rep.NativeFound = append(rep.NativeFound, &Candidate{Property: property, Harness: rep.Cfg.Harness, Kind: "stall",
						Label: "stall", Msg: "native run of a path the engine completed does not terminate (test timeout)", Site: "native",
						Nondets: s.Model, Trace: s.Trace, Params: rep.Cfg.Params})
				}
				if r.Status == "assert-fail" || r.Status == "panic" {
					// the natively compiled real code fails the harness on this input: a violation
					// witnessed natively (the engine followed another path: also reported as mismatch)
					kind, label, msg := "assert", "", "native run fails the assertion (engine path passed)"
					if r.Status == "panic" {
						kind, label, msg = "panic", "crash", r.PanicMsg
					} else if len(r.Fails) > 0 {
						label = r.Fails[0]
					}
					rep.NativeFound = append(rep.NativeFound, &Candidate{Property: property, Harness: rep.Cfg.Harness, Kind: kind,
						Label: label, Msg: msg, Site: "native", Nondets: s.Model, Trace: s.Trace, Observes: r.Observes, Params: rep.Cfg.Params})
				}
				if r.Status != "ok" {
					rep.ValidMism = append(rep.ValidMism, fmt.Sprintf("passing path (trace %q) ended natively with status %s %v %s", s.Trace, r.Status, r.Fails, r.PanicMsg))
					if verbose {
						fmt.Println(out)
					}
					continue
				}
				if !equalStrings(r.Observes, s.Observes) {
					rep.ValidMism = append(rep.ValidMism, fmt.Sprintf("observation transcript differs on trace %q: engine %q native %q", s.Trace, s.Observes, r.Observes))
					continue
				}
				rep.Validated++
			}
		}
	}
	// 2. candidates, one process each
	for _, c := range fresh {
		if c.Kind == "deadlock" || c.Kind == "leak" || c.Kind == "stall" {
			// liveness candidates: natively the same inputs must hang (test timeout) or leave the
			// harness's own leak assertion failing; the native schedule is the runtime's
			rep.Replayed++
			res, out, err := rp.run(pkg, []replayCase{{Harness: c.Harness, Nondets: c.Nondets, Params: rep.Cfg.Params}}, 45*time.Second)
			if err != nil {
				rep.ValidMism = append(rep.ValidMism, firstLine(err.Error()))
				continue
			}
			if res[0].Status == "timeout" || res[0].Status == "missing" || res[0].Status == "assert-fail" {
				rep.ReplayOK++
				rep.Violations = append(rep.Violations, c)
			} else {
				rep.ValidMism = append(rep.ValidMism, fmt.Sprintf("liveness candidate kind=%s (%s) did not reproduce natively: status %s", c.Kind, c.Msg, res[0].Status))
				if verbose {
					fmt.Println(out)
				}
			}
			continue
		}
		rep.Replayed++
		res, out, err := rp.run(pkg, []replayCase{{Harness: c.Harness, Nondets: c.Nondets, Params: rep.Cfg.Params}}, 120*time.Second)
		if err != nil {
			rep.ValidMism = append(rep.ValidMism, firstLine(err.Error()))
			continue
		}
		r := res[0]
		ok := false
		switch c.Kind {
		case "assert":
			for _, f := range r.Fails {
				if f == c.Label {
					ok = true
				}
			}
		case "panic":
			ok = r.Status == "panic"
		case "untrusted-alloc":
			// natively visible as a panic, a huge allocation, or the harness's own allocation meter
			ok = r.Status == "panic" || containsStr(r.Fails, "untrusted-alloc")
		}
		if ok {
			rep.ReplayOK++
			rep.Violations = append(rep.Violations, c)
		} else if rep.Cfg.TrustSymbolic != "" {
			// the counterexample depends on something the native run cannot be forced into (a goroutine
			// schedule, or a digest value under the uninterpreted hash model): reported on the
			// strength of the symbolic execution, with the reason stated in the check file
			c.Msg += " [not reproduced natively: " + rep.Cfg.TrustSymbolic + "]"
			rep.Violations = append(rep.Violations, c)
		} else {
			rep.ValidMism = append(rep.ValidMism, fmt.Sprintf("candidate kind=%s label=%s site=%s did not reproduce natively (native status %s fails %v panic %q)", c.Kind, c.Label, c.Site, r.Status, r.Fails, r.PanicMsg))
			if verbose {
				fmt.Println(out)
			}
		}
	}
}

func replaySchedule(rp *replayer, rep *RunReport, c *Candidate, verbose bool) bool {
	rep.ValidMism = append(rep.ValidMism, fmt.Sprintf("schedule-dependent candidate kind=%s msg=%s cannot be replayed natively", c.Kind, c.Msg))
	return false
}

func containsStr(l []string, s string) bool {
	for _, x := range l {
		if x == s {
			return true
		}
	}
	return false
}

func equalStrings(a, b []string) bool {
	if len(a) != len(b) {
		return false
	}
	for k := range a {
		if a[k] != b[k] {
			return false
		}
	}
	return true
}

// scaleHeadersSource rewrites the values of pruneDepth / headersPerFile and the automatic-clean
// period in headers/headers.go (current working tree) and returns the new source.
func scaleHeadersSource(path string, scale map[string]int64) ([]byte, string, error) {
	fset := token.NewFileSet()
	f, err := parser.ParseFile(fset, path, nil, parser.ParseComments)
	if err != nil {
		return nil, "", err
	}
	done := map[string]bool{}
	for _, d := range f.Decls {
		gd, ok := d.(*ast.GenDecl)
		if !ok || gd.Tok != token.CONST {
			continue
		}
		for _, sp := range gd.Specs {
			vs := sp.(*ast.ValueSpec)
			for k, n := range vs.Names {
				if v, ok := scale[n.Name]; ok && k < len(vs.Values) {
					if lit, ok := vs.Values[k].(*ast.BasicLit); ok && lit.Kind == token.INT {
						lit.Value = fmt.Sprint(v)
						done[n.Name] = true
					}
				}
			}
		}
	}
	if v, ok := scale["autoClean"]; ok {
		ast.Inspect(f, func(n ast.Node) bool {
			fd, ok := n.(*ast.FuncDecl)
			if !ok {
				return true
			}
			if fd.Name.Name != "ProcessHeader" {
				return false
			}
			ast.Inspect(fd, func(m ast.Node) bool {
				be, ok := m.(*ast.BinaryExpr)
				if !ok || be.Op != token.REM {
					return true
				}
				lit, ok := be.Y.(*ast.BasicLit)
				if ok && lit.Value == "10000" {
					lit.Value = fmt.Sprint(v)
					done["autoClean"] = true
				}
				return true
			})
			return false
		})
	}
	var missing []string
	for k := range scale {
		if !done[k] {
			missing = append(missing, k)
		}
	}
	if len(missing) > 0 {
		return nil, "", fmt.Errorf("scaling anchors not found in headers.go: %v", missing)
	}
	var buf bytes.Buffer
	if err := printer.Fprint(&buf, fset, f); err != nil {
		return nil, "", err
	}
	return buf.Bytes(), fmt.Sprintf("constants scaled by source overlay: %v", scale), nil
}
