package main

import (
	"fmt"
	"os"
	"runtime/debug"
)

func main() {
	debug.SetGCPercent(400)
	if len(os.Args) < 2 {
		fmt.Fprintln(os.Stderr, "usage: symgo <check|selftest> ...")
		os.Exit(2)
	}
	switch os.Args[1] {
	case "check":
		os.Exit(cmdCheck(os.Args[2:]))
	case "replay":
		os.Exit(cmdReplay(os.Args[2:]))
	default:
		fmt.Fprintln(os.Stderr, "unknown command", os.Args[1])
		os.Exit(2)
	}
}
