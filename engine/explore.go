package main

// Path exploration by decision-trace re-execution.

import (
	"fmt"
	"go/types"
	"math/big"
	"sort"
	"strings"
	"sync"
	"time"
)

type pathStatus int

const (
	stOK pathStatus = iota
	stAssumedAway
	stBound
	stUnsupported
	stInconclusive
	stEngineBug
	stKilled
	stViolatedAlways // an assertion failed on every model of the path; exploration of this path stops
	stCrashed        // uncaught target panic / deadlock: path ends with a candidate
)

func (s pathStatus) String() string {
	return [...]string{"ok", "assumed-away", "bound", "unsupported", "inconclusive", "engine-bug", "killed", "violated", "crashed"}[s]
}

// pathEnd is the panic payload used to unwind the interpreter when a path terminates early.
type pathEnd struct {
	status pathStatus
	msg    string
}

type Decision struct {
	K byte  // 'b' branch, 'c' concretize, 's' schedule, 'n' n-way choice
	V int64 // chosen value
}

func (d Decision) String() string { return fmt.Sprintf("%c%d", d.K, d.V) }

type NondetVal struct {
	Name string `json:"name"`
	Kind string `json:"kind"` // u8,u16,u32,u64,bool,bytes
	Val  string `json:"val"`  // decimal (or hex for bytes)
}

type Candidate struct {
	Property string           `json:"property"`
	Harness  string           `json:"harness"`
	Kind     string           `json:"kind"` // assert | panic | deadlock | leak | untrusted-alloc
	Label    string           `json:"label"`
	Msg      string           `json:"msg"`
	Site     string           `json:"site"`
	Nondets  []NondetVal      `json:"nondets"`
	Trace    string           `json:"trace"`
	Observes []string         `json:"observes,omitempty"`
	Stack    []string         `json:"stack,omitempty"`
	Params   map[string]int64 `json:"params,omitempty"`
}

func (c *Candidate) Key() string { return c.Kind + "|" + c.Label + "|" + c.Site }

type nondetRec struct {
	name string
	kind string
	term *Term   // scalar
	bts  []*Term // bytes
}

type PathResult struct {
	Status      pathStatus
	Msg         string
	Trace       []Decision
	Decisions   int // number of symbolic decisions on this path (new + replayed)
	Asserts     int
	Discharged  int
	Candidates  []*Candidate
	Reached     map[string]bool
	Observes    []string
	Model       []NondetVal // model of the completed path (when sampled)
	Steps       int64
	Unknowns    int
	Funcs       map[string]int // executed functions -> class (0 interpreted,1 intrinsic,2 stub)
	SolverTime  time.Duration
	Queries     int
	HashInputs  int
	MaxThreads  int
	Preemptions int
}

// PathCtx is the state of one path execution.
type PathCtx struct {
	eng    *Engine
	tc     *TermCtx
	solver *Solver

	prefix []Decision
	pos    int
	trace  []Decision
	pcs    []*Term

	nondets []nondetRec
	res     *PathResult

	steps     int64
	stepLimit int64
	loopHits  map[interface{}]int

	hashes   []hashRec
	bigSeq   int
	uuidSeq  int
	clock    int64 // virtual nanoseconds
	clock0   int64
	inInit   bool
	wantFull bool

	sched   *scheduler
	interp  *interpreter
	pending []WorkItem

	initTolerated  map[string]bool
	failedAsserts  int
	lastWitness    map[int]uint64
	model          map[int]uint64 // cached assignment satisfying the asserted path condition (nil: none)
	modelHits      int
	tokenSeq       int
	opaqueSeq      int
	obsTerms       []sym
	allocBudget    value
	quiesceHorizon int64
}

type hashRec struct {
	in  []value
	out []value
	sym bool
}

type WorkItem struct {
	Prefix []Decision
}

func (px *PathCtx) abort(st pathStatus, format string, args ...interface{}) {
	panic(pathEnd{st, fmt.Sprintf(format, args...)})
}

func (px *PathCtx) noteInitTolerance(i *interpreter, fr *frame) {
	site, _ := i.where(fr)
	if px.initTolerated == nil {
		px.initTolerated = map[string]bool{}
	}
	px.initTolerated[site] = true
}

func (px *PathCtx) assume(t *Term) {
	if t.isTrue() {
		return
	}
	px.pcs = append(px.pcs, t)
	px.solver.Assert(px.tc, t)
	if px.model != nil && !px.holdsInModel(t) {
		px.model = nil
	}
}

// holdsInModel reports whether the cached model is known to satisfy t.
func (px *PathCtx) holdsInModel(t *Term) bool {
	if px.model == nil {
		return false
	}
	e := evalCtx{m: px.model, memo: map[int]uint64{}}
	v, ok := e.eval(t)
	return ok && v == 1
}

// checkWitness is check(t) that also refreshes the cached model when the answer is sat.
func (px *PathCtx) checkWitness(t *Term) SatResult {
	if px.holdsInModel(t) {
		px.modelHits++
		return Sat
	}
	var want []*Term
	for _, v := range px.tc.vars {
		if v.sort.K != SInt && (v.sort.K != SBV || v.sort.W <= 64) {
			want = append(want, v)
		}
	}
	r, m := px.solver.CheckModel(px.tc, t, want)
	if r == Unknown {
		px.res.Unknowns++
	}
	if r == Sat && m != nil {
		nm := make(map[int]uint64, len(m))
		for id, v := range m {
			nm[id] = v.Uint64()
		}
		px.lastWitness = nm
	}
	return r
}

func (px *PathCtx) pushAlt(d Decision) {
	alt := make([]Decision, len(px.trace)+1)
	copy(alt, px.trace)
	alt[len(px.trace)] = d
	px.pending = append(px.pending, WorkItem{alt})
}

func (px *PathCtx) check(t *Term) SatResult {
	r := px.solver.Check(px.tc, t)
	if r == Unknown {
		px.res.Unknowns++
	}
	return r
}

// branch decides a symbolic condition, forking when both outcomes are feasible.
func (px *PathCtx) branch(c *Term) bool {
	if c.isConst() {
		return c.c == 1
	}
	px.res.Decisions++
	if px.pos < len(px.prefix) {
		d := px.prefix[px.pos]
		px.pos++
		if d.K != 'b' {
			px.abort(stEngineBug, "replay divergence: expected branch decision, trace has %v at %d", d, px.pos-1)
		}
		px.trace = append(px.trace, d)
		if d.V == 1 {
			px.assume(c)
			return true
		}
		px.assume(px.tc.Not(c))
		return false
	}
	nc := px.tc.Not(c)
	var r1, r2 SatResult
	var w1 map[int]uint64
	if px.holdsInModel(nc) {
		// the cached model witnesses the false side; only the true side needs the solver
		px.modelHits++
		r2 = Sat
		r1 = px.checkWitness(c)
		w1 = px.lastWitness
	} else {
		r1 = px.checkWitness(c)
		w1 = px.lastWitness
		if r1 == Unsat {
			r2 = Sat // the path condition is satisfiable, so the other side must be
		} else {
			r2 = px.check(nc)
		}
	}
	if r1 == Unsat {
		px.trace = append(px.trace, Decision{'b', 0})
		px.assume(nc)
		return false
	}
	if r2 != Unsat {
		px.pushAlt(Decision{'b', 0})
	}
	px.trace = append(px.trace, Decision{'b', 1})
	if r1 == Sat && !px.holdsInModel(c) && w1 != nil {
		px.model = w1
	}
	px.assume(c)
	return true
}

// choose makes an n-way decision among the listed options (already known feasible).
func (px *PathCtx) choose(kind byte, opts []int64) int64 {
	if len(opts) == 0 {
		px.abort(stEngineBug, "choose with no options")
	}
	px.res.Decisions++
	if px.pos < len(px.prefix) {
		d := px.prefix[px.pos]
		px.pos++
		if d.K != kind {
			px.abort(stEngineBug, "replay divergence: expected %c decision, trace has %v", kind, d)
		}
		px.trace = append(px.trace, d)
		return d.V
	}
	for _, o := range opts[1:] {
		px.pushAlt(Decision{kind, o})
	}
	px.trace = append(px.trace, Decision{kind, opts[0]})
	return opts[0]
}

// concretize forks over the feasible values of t (at most limit).
func (px *PathCtx) concretize(t *Term, limit int, what string) uint64 {
	if t.isConst() {
		return t.c
	}
	px.res.Decisions++
	w := t.sort.W
	if px.pos < len(px.prefix) {
		d := px.prefix[px.pos]
		px.pos++
		if d.K != 'c' {
			px.abort(stEngineBug, "replay divergence: expected concretize decision, trace has %v", d)
		}
		px.trace = append(px.trace, d)
		px.assume(px.tc.Eq(t, px.tc.BV(w, uint64(d.V))))
		return uint64(d.V)
	}
	vals, ok := px.solver.Enumerate(px.tc, t, limit)
	if !ok {
		px.res.Unknowns++
		px.abort(stInconclusive, "solver unknown while concretizing %s", what)
	}
	if len(vals) > limit {
		px.abort(stBound, "more than %d feasible values for %s", limit, what)
	}
	if len(vals) == 0 {
		px.abort(stEngineBug, "concretize: path condition unsatisfiable (%s)", what)
	}
	sort.Slice(vals, func(i, j int) bool { return vals[i] < vals[j] })
	for _, v := range vals[1:] {
		px.pushAlt(Decision{'c', int64(v)})
	}
	px.trace = append(px.trace, Decision{'c', int64(vals[0])})
	px.assume(px.tc.Eq(t, px.tc.BV(w, vals[0])))
	return vals[0]
}

func traceString(tr []Decision) string {
	var sb strings.Builder
	for i, d := range tr {
		if i > 0 {
			sb.WriteByte(' ')
		}
		sb.WriteString(d.String())
	}
	return sb.String()
}

// currentModel returns nondet values satisfying the path condition ∧ extra.
func (px *PathCtx) currentModel(extra *Term) (SatResult, []NondetVal) {
	r, m, _ := px.currentModelObs(extra)
	return r, m
}

// currentModelObs additionally instantiates the observation transcript with the model.
func (px *PathCtx) currentModelObs(extra *Term) (SatResult, []NondetVal, []string) {
	var want []*Term
	for _, n := range px.nondets {
		if n.term != nil {
			want = append(want, n.term)
		}
		for _, b := range n.bts {
			if !b.isConst() {
				want = append(want, b)
			}
		}
	}
	for _, o := range px.obsTerms {
		if !o.t.isConst() {
			want = append(want, o.t)
		}
	}
	r, m := px.solver.CheckModel(px.tc, extra, want)
	if r != Sat {
		if r == Unknown {
			px.res.Unknowns++
		}
		return r, nil, nil
	}
	get := func(t *Term) *big.Int {
		if t.isConst() {
			return t.constBig()
		}
		if v, ok := m[t.id]; ok {
			return v
		}
		return big.NewInt(0)
	}
	var out []NondetVal
	for _, n := range px.nondets {
		nv := NondetVal{Name: n.name, Kind: n.kind}
		if n.term != nil {
			nv.Val = get(n.term).String()
		} else {
			var sb strings.Builder
			for _, b := range n.bts {
				fmt.Fprintf(&sb, "%02x", get(b).Uint64())
			}
			nv.Val = sb.String()
		}
		out = append(out, nv)
	}
	vals := make([]string, len(px.obsTerms))
	for k, o := range px.obsTerms {
		v := get(o.t)
		if o.k == types.Bool {
			vals[k] = fmt.Sprint(v.Sign() != 0)
		} else if kindSigned(o.k) {
			vals[k] = fmt.Sprint(signExt(v.Uint64(), kindWidth(o.k)))
		} else {
			vals[k] = v.String()
		}
	}
	return Sat, out, substituteObs(px.res.Observes, vals)
}

func (px *PathCtx) addCandidate(kind, label, msg, site string, extra *Term, stack []string) bool {
	r, model, obs := px.currentModelObs(extra)
	if r != Sat {
		return false
	}
	c := &Candidate{
		Property: px.eng.cfg.Property,
		Harness:  px.eng.cfg.Harness,
		Kind:     kind, Label: label, Msg: msg, Site: site,
		Nondets:  model,
		Trace:    traceString(px.trace),
		Observes: obs,
		Params:   px.eng.cfg.Params,
		Stack:    stack,
	}
	px.res.Candidates = append(px.res.Candidates, c)
	return true
}

// replaying reports whether execution is still inside the recorded decision prefix.
func (px *PathCtx) replaying() bool { return px.pos < len(px.prefix) }

// assertCond implements verifAssert. The outcome of a symbolic assertion is recorded as a decision
// ('a': 0 = holds or assumed, 1 = fails on every model, not assumed) so that replays of the prefix
// neither re-query nor re-report it.
func (px *PathCtx) assertCond(c *Term, label string, site string) {
	if c.isTrue() {
		px.res.Asserts++
		px.res.Discharged++
		return
	}
	if c.isFalse() {
		// concrete failure: attribute it to the path that first reaches it
		if px.replaying() {
			return
		}
		px.res.Asserts++
		if !px.addCandidate("assert", label, "assertion fails", site, nil, nil) {
			px.abort(stInconclusive, "could not obtain model for failing assertion %q", label)
		}
		px.failedAsserts++
		if px.failedAsserts > 50 {
			px.abort(stViolatedAlways, "more than 50 failing assertions on this path (last %q)", label)
		}
		return
	}
	if px.replaying() {
		d := px.prefix[px.pos]
		px.pos++
		if d.K != 'a' {
			px.abort(stEngineBug, "replay divergence: expected assertion record, trace has %v", d)
		}
		px.trace = append(px.trace, d)
		if d.V == 0 {
			px.assume(c)
		}
		return
	}
	px.res.Asserts++
	neg := px.tc.Not(c)
	r := px.check(neg)
	switch r {
	case Unsat:
		px.res.Discharged++
		px.trace = append(px.trace, Decision{'a', 0})
		px.assume(c)
		return
	case Unknown:
		px.abort(stInconclusive, "solver unknown on assertion %q", label)
	}
	if !px.addCandidate("assert", label, "assertion can fail", site, neg, nil) {
		px.abort(stInconclusive, "could not obtain model for failing assertion %q", label)
	}
	// continue: on the models where it holds when there are any, otherwise unconstrained (so that
	// different violations behind a known one are still reached)
	px.failedAsserts++
	if px.failedAsserts > 50 {
		px.abort(stViolatedAlways, "more than 50 failing assertions on this path (last %q)", label)
	}
	if px.check(c) == Unsat {
		px.trace = append(px.trace, Decision{'a', 1})
		return
	}
	px.trace = append(px.trace, Decision{'a', 0})
	px.assume(c)
}

// ---------------- engine ----------------

type Engine struct {
	cfg  *CheckConfig
	prog *Program

	mu      sync.Mutex
	cond    *sync.Cond
	queue   []WorkItem
	active  int
	stopped bool

	results  Aggregate
	deadline time.Time
	seed     int64
}

type Aggregate struct {
	Paths        int
	ByStatus     map[string]int
	Decisions    int
	Asserts      int
	Discharged   int
	Candidates   map[string][]*Candidate // by key
	CandCount    map[string]int
	Reached      map[string]int
	Funcs        map[string]int
	Queries      int
	SolverTime   time.Duration
	Unknowns     int
	Problems     []string // inconclusive / bound / unsupported messages (deduplicated)
	problemSeen  map[string]int
	Samples      []PathSample
	MaxTraceLen  int
	Steps        int64
	Truncated    bool
	HashInputs   int
	MaxThreads   int
	SolverErrors int
	sampleMax    uint64
}

type PathSample struct {
	Trace    string      `json:"trace"`
	Status   string      `json:"status"`
	Model    []NondetVal `json:"model,omitempty"`
	Observes []string    `json:"observes,omitempty"`
	hash     uint64
}

func newEngine(cfg *CheckConfig, prog *Program) *Engine {
	e := &Engine{cfg: cfg, prog: prog}
	e.cond = sync.NewCond(&e.mu)
	e.results = Aggregate{
		ByStatus: map[string]int{}, Candidates: map[string][]*Candidate{}, CandCount: map[string]int{},
		Reached: map[string]int{}, Funcs: map[string]int{}, problemSeen: map[string]int{},
	}
	return e
}

func (e *Engine) pop() (WorkItem, bool) {
	e.mu.Lock()
	defer e.mu.Unlock()
	for {
		if e.stopped {
			return WorkItem{}, false
		}
		if n := len(e.queue); n > 0 {
			it := e.queue[n-1]
			e.queue = e.queue[:n-1]
			e.active++
			return it, true
		}
		if e.active == 0 {
			e.cond.Broadcast()
			return WorkItem{}, false
		}
		e.cond.Wait()
	}
}

func (e *Engine) done(res *PathResult, pending []WorkItem, solverErrs int) {
	e.mu.Lock()
	defer e.mu.Unlock()
	e.active--
	e.queue = append(e.queue, pending...)
	a := &e.results
	a.Paths++
	a.ByStatus[res.Status.String()]++
	a.Decisions += res.Decisions
	a.Asserts += res.Asserts
	a.Discharged += res.Discharged
	a.Queries += res.Queries
	a.SolverTime += res.SolverTime
	a.Unknowns += res.Unknowns
	a.Steps += res.Steps
	a.HashInputs += res.HashInputs
	a.SolverErrors += solverErrs
	if res.MaxThreads > a.MaxThreads {
		a.MaxThreads = res.MaxThreads
	}
	if len(res.Trace) > a.MaxTraceLen {
		a.MaxTraceLen = len(res.Trace)
	}
	for k := range res.Reached {
		a.Reached[k]++
	}
	for k, v := range res.Funcs {
		a.Funcs[k] = v
	}
	for _, c := range res.Candidates {
		k := c.Key()
		a.CandCount[k]++
		if len(a.Candidates[k]) < 3 {
			a.Candidates[k] = append(a.Candidates[k], c)
		}
	}
	switch res.Status {
	case stBound, stUnsupported, stInconclusive, stEngineBug:
		key := res.Status.String() + ": " + res.Msg
		if a.problemSeen[key] == 0 {
			a.Problems = append(a.Problems, key)
		}
		a.problemSeen[key]++
	}
	if res.Status == stOK && res.Model != nil {
		h := e.traceHash(res.Trace)
		ps := PathSample{traceString(res.Trace), res.Status.String(), res.Model, res.Observes, h}
		if len(a.Samples) < e.cfg.SampleCount {
			a.Samples = append(a.Samples, ps)
		} else if h < a.sampleMax {
			// replace the sample with the largest hash
			mi := 0
			for k := range a.Samples {
				if a.Samples[k].hash > a.Samples[mi].hash {
					mi = k
				}
			}
			a.Samples[mi] = ps
		}
		a.sampleMax = 0
		for _, x := range a.Samples {
			if x.hash > a.sampleMax {
				a.sampleMax = x.hash
			}
		}
	}
	if e.cfg.MaxPaths > 0 && a.Paths >= e.cfg.MaxPaths && (len(e.queue) > 0 || e.active > 0) {
		a.Truncated = true
		e.stopped = true
	}
	if !e.deadline.IsZero() && time.Now().After(e.deadline) && (len(e.queue) > 0 || e.active > 0) {
		a.Truncated = true
		e.stopped = true
	}
	e.cond.Broadcast()
}

func (e *Engine) run(workers int) {
	e.queue = []WorkItem{{}}
	var wg sync.WaitGroup
	for w := 0; w < workers; w++ {
		wg.Add(1)
		go func(w int) {
			defer wg.Done()
			s, err := newSolver(e.cfg.Solver, e.cfg.SolverTimeoutMs)
			if err != nil {
				panic(err)
			}
			defer s.Close()
			if e.cfg.queryLog != nil && w == 0 {
				s.log = e.cfg.queryLog
			}
			for {
				it, ok := e.pop()
				if !ok {
					return
				}
				errs0 := s.Errors
				res, pending := runPath(e, s, it)
				e.done(res, pending, s.Errors-errs0)
			}
		}(w)
	}
	wg.Wait()
}
