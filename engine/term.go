package main

// Terms: a small hash-consed SMT term DAG with constant folding.
// Sorts: Bool, BitVec(w), Int (mathematical integers, used only for math/big).

import (
	"fmt"
	"math/big"
	"strings"
)

type SortKind uint8

const (
	SBool SortKind = iota
	SBV
	SInt
)

type Sort struct {
	K SortKind
	W int
}

func (s Sort) String() string {
	switch s.K {
	case SBool:
		return "Bool"
	case SBV:
		return fmt.Sprintf("(_ BitVec %d)", s.W)
	default:
		return "Int"
	}
}

var boolSort = Sort{SBool, 0}
var intSort = Sort{SInt, 0}

func bvSort(w int) Sort { return Sort{SBV, w} }

type Op uint8

const (
	OConst Op = iota
	OVar
	ONot
	OAnd
	OOr
	OIte
	OEq
	OBvAdd
	OBvSub
	OBvMul
	OBvUdiv
	OBvUrem
	OBvSdiv
	OBvSrem
	OBvAnd
	OBvOr
	OBvXor
	OBvNot
	OBvNeg
	OBvShl
	OBvLshr
	OBvAshr
	OBvUlt
	OBvUle
	OBvSlt
	OBvSle
	OConcat
	OExtract
	OZext
	OSext
	OIntAdd
	OIntSub
	OIntMul
	OIntDiv
	OIntMod
	OIntLt
	OIntLe
	OIntNeg
	OBv2Nat
	OInt2Bv
	OApply
)

var opNames = map[Op]string{
	ONot: "not", OAnd: "and", OOr: "or", OIte: "ite", OEq: "=",
	OBvAdd: "bvadd", OBvSub: "bvsub", OBvMul: "bvmul", OBvUdiv: "bvudiv", OBvUrem: "bvurem",
	OBvSdiv: "bvsdiv", OBvSrem: "bvsrem", OBvAnd: "bvand", OBvOr: "bvor", OBvXor: "bvxor",
	OBvNot: "bvnot", OBvNeg: "bvneg", OBvShl: "bvshl", OBvLshr: "bvlshr", OBvAshr: "bvashr",
	OBvUlt: "bvult", OBvUle: "bvule", OBvSlt: "bvslt", OBvSle: "bvsle", OConcat: "concat",
	OIntAdd: "+", OIntSub: "-", OIntMul: "*", OIntDiv: "div", OIntMod: "mod", OIntLt: "<", OIntLe: "<=",
	OIntNeg: "-", OBv2Nat: "bv2nat",
}

type Term struct {
	op   Op
	sort Sort
	args []*Term
	c    uint64   // constant value for Bool (0/1) and BV with W<=64
	bc   *big.Int // constant for Int and BV with W>64
	name string   // OVar / OApply
	p, q int      // extract hi/lo, ext amount, int2bv width
	id   int
}

// TermCtx owns hash-consing for one path execution.
type TermCtx struct {
	table  map[string]*Term
	nextID int
	vars   []*Term           // declared variables in creation order
	ufs    map[string]string // uf name -> declaration
	ufList []string
}

func newTermCtx() *TermCtx {
	return &TermCtx{table: map[string]*Term{}, ufs: map[string]string{}}
}

func (tc *TermCtx) key(t *Term) string {
	var sb strings.Builder
	fmt.Fprintf(&sb, "%d/%d.%d/", t.op, t.sort.K, t.sort.W)
	switch t.op {
	case OConst:
		if t.bc != nil {
			sb.WriteString(t.bc.String())
		} else {
			fmt.Fprintf(&sb, "%d", t.c)
		}
	case OVar, OApply:
		sb.WriteString(t.name)
	}
	if t.p != 0 || t.q != 0 {
		fmt.Fprintf(&sb, "[%d,%d]", t.p, t.q)
	}
	for _, a := range t.args {
		fmt.Fprintf(&sb, " %d", a.id)
	}
	return sb.String()
}

func (tc *TermCtx) intern(t *Term) *Term {
	k := tc.key(t)
	if e, ok := tc.table[k]; ok {
		return e
	}
	tc.nextID++
	t.id = tc.nextID
	tc.table[k] = t
	return t
}

func (t *Term) isConst() bool { return t.op == OConst }
func (t *Term) isTrue() bool  { return t.op == OConst && t.sort.K == SBool && t.c == 1 }
func (t *Term) isFalse() bool { return t.op == OConst && t.sort.K == SBool && t.c == 0 }

func mask(w int) uint64 {
	if w >= 64 {
		return ^uint64(0)
	}
	return (uint64(1) << uint(w)) - 1
}

func (tc *TermCtx) Bool(b bool) *Term {
	c := uint64(0)
	if b {
		c = 1
	}
	return tc.intern(&Term{op: OConst, sort: boolSort, c: c})
}

func (tc *TermCtx) BV(w int, v uint64) *Term {
	if w > 64 {
		return tc.BVBig(w, new(big.Int).SetUint64(v))
	}
	return tc.intern(&Term{op: OConst, sort: bvSort(w), c: v & mask(w)})
}

func (tc *TermCtx) BVBig(w int, v *big.Int) *Term {
	m := new(big.Int).Lsh(big.NewInt(1), uint(w))
	v = new(big.Int).Mod(v, m)
	if w <= 64 {
		return tc.BV(w, v.Uint64())
	}
	return tc.intern(&Term{op: OConst, sort: bvSort(w), bc: v})
}

func (tc *TermCtx) IntConst(v *big.Int) *Term {
	return tc.intern(&Term{op: OConst, sort: intSort, bc: new(big.Int).Set(v)})
}

func (tc *TermCtx) Var(name string, s Sort) *Term {
	t := &Term{op: OVar, sort: s, name: name}
	k := tc.key(t)
	if e, ok := tc.table[k]; ok {
		return e
	}
	t = tc.intern(t)
	tc.vars = append(tc.vars, t)
	return t
}

// constant value as big.Int (unsigned for BV).
func (t *Term) constBig() *big.Int {
	if t.bc != nil {
		return t.bc
	}
	return new(big.Int).SetUint64(t.c)
}

func (tc *TermCtx) Not(a *Term) *Term {
	if a.isConst() {
		return tc.Bool(a.c == 0)
	}
	if a.op == ONot {
		return a.args[0]
	}
	return tc.intern(&Term{op: ONot, sort: boolSort, args: []*Term{a}})
}

func (tc *TermCtx) And(a, b *Term) *Term {
	if a.isFalse() || b.isFalse() {
		return tc.Bool(false)
	}
	if a.isTrue() {
		return b
	}
	if b.isTrue() {
		return a
	}
	if a == b {
		return a
	}
	return tc.intern(&Term{op: OAnd, sort: boolSort, args: []*Term{a, b}})
}

func (tc *TermCtx) Or(a, b *Term) *Term {
	if a.isTrue() || b.isTrue() {
		return tc.Bool(true)
	}
	if a.isFalse() {
		return b
	}
	if b.isFalse() {
		return a
	}
	if a == b {
		return a
	}
	return tc.intern(&Term{op: OOr, sort: boolSort, args: []*Term{a, b}})
}

func (tc *TermCtx) Ite(c, a, b *Term) *Term {
	if c.isTrue() {
		return a
	}
	if c.isFalse() {
		return b
	}
	if a == b {
		return a
	}
	if a.sort.K == SBool {
		if a.isTrue() && b.isFalse() {
			return c
		}
		if a.isFalse() && b.isTrue() {
			return tc.Not(c)
		}
	}
	return tc.intern(&Term{op: OIte, sort: a.sort, args: []*Term{c, a, b}})
}

func (tc *TermCtx) Eq(a, b *Term) *Term {
	if a == b {
		return tc.Bool(true)
	}
	if a.sort != b.sort {
		panic(fmt.Sprintf("Eq sort mismatch %v %v", a.sort, b.sort))
	}
	if a.isConst() && b.isConst() {
		if a.bc != nil || b.bc != nil {
			return tc.Bool(a.constBig().Cmp(b.constBig()) == 0)
		}
		return tc.Bool(a.c == b.c)
	}
	if a.sort.K == SBool {
		if a.isConst() {
			a, b = b, a
		}
		if b.isTrue() {
			return a
		}
		if b.isFalse() {
			return tc.Not(a)
		}
	}
	// equality of concat with constant / concat: split bytewise when cheap
	if a.id > b.id {
		a, b = b, a
	}
	return tc.intern(&Term{op: OEq, sort: boolSort, args: []*Term{a, b}})
}

func signExt(v uint64, w int) int64 {
	if w >= 64 {
		return int64(v)
	}
	sh := uint(64 - w)
	return int64(v<<sh) >> sh
}

func (tc *TermCtx) bvbin(op Op, a, b *Term) *Term {
	w := a.sort.W
	if a.sort != b.sort || a.sort.K != SBV {
		panic(fmt.Sprintf("bvbin %v sort mismatch %v %v", opNames[op], a.sort, b.sort))
	}
	if a.isConst() && b.isConst() && w <= 64 {
		x, y := a.c, b.c
		var r uint64
		ok := true
		switch op {
		case OBvAdd:
			r = x + y
		case OBvSub:
			r = x - y
		case OBvMul:
			r = x * y
		case OBvUdiv:
			if y == 0 {
				r = mask(w)
			} else {
				r = x / y
			}
		case OBvUrem:
			if y == 0 {
				r = x
			} else {
				r = x % y
			}
		case OBvSdiv:
			sx, sy := signExt(x, w), signExt(y, w)
			if sy == 0 {
				ok = false
			} else if sy == -1 {
				r = uint64(-sx)
			} else {
				r = uint64(sx / sy)
			}
		case OBvSrem:
			sx, sy := signExt(x, w), signExt(y, w)
			if sy == 0 {
				ok = false
			} else if sy == -1 {
				r = 0
			} else {
				r = uint64(sx % sy)
			}
		case OBvAnd:
			r = x & y
		case OBvOr:
			r = x | y
		case OBvXor:
			r = x ^ y
		case OBvShl:
			if y >= uint64(w) {
				r = 0
			} else {
				r = x << y
			}
		case OBvLshr:
			if y >= uint64(w) {
				r = 0
			} else {
				r = x >> y
			}
		case OBvAshr:
			sx := signExt(x, w)
			if y >= uint64(w) {
				y = uint64(w - 1)
			}
			r = uint64(sx >> y)
		default:
			ok = false
		}
		if ok {
			return tc.BV(w, r)
		}
	}
	if a.isConst() && b.isConst() && w > 64 {
		x, y := a.constBig(), b.constBig()
		switch op {
		case OBvAdd:
			return tc.BVBig(w, new(big.Int).Add(x, y))
		case OBvSub:
			return tc.BVBig(w, new(big.Int).Sub(x, y))
		case OBvAnd:
			return tc.BVBig(w, new(big.Int).And(x, y))
		case OBvOr:
			return tc.BVBig(w, new(big.Int).Or(x, y))
		case OBvXor:
			return tc.BVBig(w, new(big.Int).Xor(x, y))
		}
	}
	// identities
	isZero := func(t *Term) bool { return t.isConst() && t.bc == nil && t.c == 0 }
	isOnes := func(t *Term) bool { return t.isConst() && t.bc == nil && w <= 64 && t.c == mask(w) }
	switch op {
	case OBvAdd, OBvOr, OBvXor:
		if isZero(a) {
			return b
		}
		if isZero(b) {
			return a
		}
		if op == OBvOr {
			// or of (concat hi 0..) patterns is left to the solver
			if a == b {
				return a
			}
		}
	case OBvSub, OBvShl, OBvLshr, OBvAshr:
		if isZero(b) {
			return a
		}
		if (op == OBvShl || op == OBvLshr) && isZero(a) {
			return a
		}
	case OBvAnd:
		if isZero(a) {
			return a
		}
		if isZero(b) {
			return b
		}
		if isOnes(a) {
			return b
		}
		if isOnes(b) {
			return a
		}
		if a == b {
			return a
		}
	case OBvMul:
		if isZero(a) {
			return a
		}
		if isZero(b) {
			return b
		}
		if a.isConst() && a.bc == nil && a.c == 1 {
			return b
		}
		if b.isConst() && b.bc == nil && b.c == 1 {
			return a
		}
	}
	// shift by constant on zext/concat patterns: turn (shl (zext x) k) into concat where cheap
	if (op == OBvShl || op == OBvLshr) && b.isConst() && b.bc == nil {
		k := int(b.c)
		if k >= w {
			return tc.BV(w, 0)
		}
		if op == OBvShl {
			// result = concat(extract(w-1-k,0,a), 0_k)
			return tc.Concat(tc.Extract(a, w-1-k, 0), tc.BV(k, 0))
		}
		return tc.Concat(tc.BV(k, 0), tc.Extract(a, w-1, k))
	}
	if op == OBvOr || op == OBvAdd || op == OBvXor {
		// bytes recombination: or of two terms with disjoint known-zero parts -> concat
		if r := tc.mergeDisjoint(a, b); r != nil {
			return r
		}
	}
	if op == OBvAnd {
		// and with a low mask constant -> zext(extract)
		if b.isConst() && b.bc == nil && w <= 64 {
			if r := tc.andMask(a, b.c, w); r != nil {
				return r
			}
		}
		if a.isConst() && a.bc == nil && w <= 64 {
			if r := tc.andMask(b, a.c, w); r != nil {
				return r
			}
		}
	}
	return tc.intern(&Term{op: op, sort: a.sort, args: []*Term{a, b}})
}

// andMask simplifies x & m when m is a contiguous run of ones.
func (tc *TermCtx) andMask(x *Term, m uint64, w int) *Term {
	if m == 0 {
		return tc.BV(w, 0)
	}
	// find lo, hi of run
	lo := 0
	for (m>>uint(lo))&1 == 0 {
		lo++
	}
	hi := lo
	for hi+1 < w && (m>>uint(hi+1))&1 == 1 {
		hi++
	}
	// check contiguous
	var run uint64
	if hi-lo+1 >= 64 {
		run = ^uint64(0)
	} else {
		run = ((uint64(1) << uint(hi-lo+1)) - 1) << uint(lo)
	}
	if run != m {
		return nil
	}
	mid := tc.Extract(x, hi, lo)
	var r *Term = mid
	if lo > 0 {
		r = tc.Concat(r, tc.BV(lo, 0))
	}
	if hi < w-1 {
		r = tc.Concat(tc.BV(w-1-hi, 0), r)
	}
	return r
}

// segments decomposes a term into concat segments (msb first).
func (tc *TermCtx) segments(t *Term) []*Term {
	if t.op == OConcat {
		var out []*Term
		for _, a := range t.args {
			out = append(out, tc.segments(a)...)
		}
		return out
	}
	if t.op == OZext {
		return append([]*Term{tc.BV(t.p, 0)}, tc.segments(t.args[0])...)
	}
	return []*Term{t}
}

// mergeDisjoint: if a and b are concats such that at every bit position at most one is non-zero
// (known syntactically), return the merged concat.
func (tc *TermCtx) mergeDisjoint(a, b *Term) *Term {
	if a.op != OConcat && a.op != OZext && !a.isConst() {
		return nil
	}
	if b.op != OConcat && b.op != OZext && !b.isConst() {
		return nil
	}
	if a.isConst() && b.isConst() {
		return nil
	}
	if (a.isConst() && a.bc != nil) || (b.isConst() && b.bc != nil) {
		return nil
	}
	sa, sb := tc.segments(a), tc.segments(b)
	// walk both from msb, splitting on boundaries
	var out []*Term
	ia, ib := 0, 0
	var ra, rb *Term // remaining parts
	next := func(s []*Term, i *int, rem **Term) *Term {
		if *rem != nil {
			t := *rem
			*rem = nil
			return t
		}
		if *i >= len(s) {
			return nil
		}
		t := s[*i]
		*i++
		return t
	}
	isZ := func(t *Term) bool { return t.isConst() && t.bc == nil && t.c == 0 }
	for {
		x := next(sa, &ia, &ra)
		y := next(sb, &ib, &rb)
		if x == nil && y == nil {
			break
		}
		if x == nil || y == nil {
			return nil
		}
		wx, wy := x.sort.W, y.sort.W
		if wx > wy {
			ra = tc.Extract(x, wx-wy-1, 0)
			x = tc.Extract(x, wx-1, wx-wy)
		} else if wy > wx {
			rb = tc.Extract(y, wy-wx-1, 0)
			y = tc.Extract(y, wy-1, wy-wx)
		}
		switch {
		case isZ(x):
			out = append(out, y)
		case isZ(y):
			out = append(out, x)
		default:
			return nil
		}
	}
	r := out[0]
	for _, s := range out[1:] {
		r = tc.Concat(r, s)
	}
	return r
}

func (tc *TermCtx) BvAdd(a, b *Term) *Term  { return tc.bvbin(OBvAdd, a, b) }
func (tc *TermCtx) BvSub(a, b *Term) *Term  { return tc.bvbin(OBvSub, a, b) }
func (tc *TermCtx) BvMul(a, b *Term) *Term  { return tc.bvbin(OBvMul, a, b) }
func (tc *TermCtx) BvAnd(a, b *Term) *Term  { return tc.bvbin(OBvAnd, a, b) }
func (tc *TermCtx) BvOr(a, b *Term) *Term   { return tc.bvbin(OBvOr, a, b) }
func (tc *TermCtx) BvXor(a, b *Term) *Term  { return tc.bvbin(OBvXor, a, b) }
func (tc *TermCtx) BvShl(a, b *Term) *Term  { return tc.bvbin(OBvShl, a, b) }
func (tc *TermCtx) BvLshr(a, b *Term) *Term { return tc.bvbin(OBvLshr, a, b) }
func (tc *TermCtx) BvAshr(a, b *Term) *Term { return tc.bvbin(OBvAshr, a, b) }

func (tc *TermCtx) BvNot(a *Term) *Term {
	if a.isConst() && a.bc == nil {
		return tc.BV(a.sort.W, ^a.c)
	}
	return tc.intern(&Term{op: OBvNot, sort: a.sort, args: []*Term{a}})
}

func (tc *TermCtx) BvNeg(a *Term) *Term {
	if a.isConst() && a.bc == nil {
		return tc.BV(a.sort.W, -a.c)
	}
	return tc.intern(&Term{op: OBvNeg, sort: a.sort, args: []*Term{a}})
}

func (tc *TermCtx) bvcmp(op Op, a, b *Term) *Term {
	if a.sort != b.sort {
		panic("bvcmp sort mismatch")
	}
	w := a.sort.W
	if a.isConst() && b.isConst() {
		if w <= 64 {
			switch op {
			case OBvUlt:
				return tc.Bool(a.c < b.c)
			case OBvUle:
				return tc.Bool(a.c <= b.c)
			case OBvSlt:
				return tc.Bool(signExt(a.c, w) < signExt(b.c, w))
			case OBvSle:
				return tc.Bool(signExt(a.c, w) <= signExt(b.c, w))
			}
		} else if op == OBvUlt || op == OBvUle {
			c := a.constBig().Cmp(b.constBig())
			if op == OBvUlt {
				return tc.Bool(c < 0)
			}
			return tc.Bool(c <= 0)
		}
	}
	if a == b {
		return tc.Bool(op == OBvUle || op == OBvSle)
	}
	return tc.intern(&Term{op: op, sort: boolSort, args: []*Term{a, b}})
}

func (tc *TermCtx) Concat(a, b *Term) *Term {
	w := a.sort.W + b.sort.W
	if a.isConst() && b.isConst() {
		if w <= 64 {
			return tc.BV(w, a.c<<uint(b.sort.W)|b.c)
		}
		v := new(big.Int).Lsh(a.constBig(), uint(b.sort.W))
		v.Or(v, b.constBig())
		return tc.BVBig(w, v)
	}
	// adjacent extracts of same base
	if a.op == OExtract && b.op == OExtract && a.args[0] == b.args[0] && a.q == b.p+1 {
		return tc.Extract(a.args[0], a.p, b.q)
	}
	// concat(x, concat(y,z)) with x,y adjacent extracts
	if b.op == OConcat && a.op == OExtract {
		f := b.args[0]
		if f.op == OExtract && f.args[0] == a.args[0] && a.q == f.p+1 {
			return tc.Concat(tc.Extract(a.args[0], a.p, f.q), b.args[1])
		}
	}
	if a.op == OConcat && b.op == OExtract {
		l := a.args[1]
		if l.op == OExtract && l.args[0] == b.args[0] && l.q == b.p+1 {
			return tc.Concat(a.args[0], tc.Extract(b.args[0], l.p, b.q))
		}
	}
	if a.op == OConcat && b.isConst() && a.args[1].isConst() {
		return tc.Concat(a.args[0], tc.Concat(a.args[1], b))
	}
	return tc.intern(&Term{op: OConcat, sort: bvSort(w), args: []*Term{a, b}})
}

func (tc *TermCtx) Extract(a *Term, hi, lo int) *Term {
	w := a.sort.W
	if hi >= w || lo < 0 || hi < lo {
		panic(fmt.Sprintf("bad extract %d %d of width %d", hi, lo, w))
	}
	if lo == 0 && hi == w-1 {
		return a
	}
	nw := hi - lo + 1
	if a.isConst() {
		if a.bc == nil {
			return tc.BV(nw, a.c>>uint(lo))
		}
		v := new(big.Int).Rsh(a.bc, uint(lo))
		return tc.BVBig(nw, v)
	}
	switch a.op {
	case OExtract:
		return tc.Extract(a.args[0], a.q+hi, a.q+lo)
	case OConcat:
		lw := a.args[1].sort.W
		if hi < lw {
			return tc.Extract(a.args[1], hi, lo)
		}
		if lo >= lw {
			return tc.Extract(a.args[0], hi-lw, lo-lw)
		}
		return tc.Concat(tc.Extract(a.args[0], hi-lw, 0), tc.Extract(a.args[1], lw-1, lo))
	case OZext:
		iw := a.args[0].sort.W
		if hi < iw {
			return tc.Extract(a.args[0], hi, lo)
		}
		if lo >= iw {
			return tc.BV(nw, 0)
		}
		return tc.Concat(tc.BV(hi-iw+1, 0), tc.Extract(a.args[0], iw-1, lo))
	case OSext:
		iw := a.args[0].sort.W
		if hi < iw {
			return tc.Extract(a.args[0], hi, lo)
		}
	case OBvAnd, OBvOr, OBvXor:
		if lo == 0 || true {
			return tc.bvbin(a.op, tc.Extract(a.args[0], hi, lo), tc.Extract(a.args[1], hi, lo))
		}
	case OBvAdd, OBvSub, OBvMul:
		if lo == 0 {
			return tc.bvbin(a.op, tc.Extract(a.args[0], hi, 0), tc.Extract(a.args[1], hi, 0))
		}
	case OIte:
		if a.args[1].isConst() || a.args[2].isConst() {
			return tc.Ite(a.args[0], tc.Extract(a.args[1], hi, lo), tc.Extract(a.args[2], hi, lo))
		}
	}
	return tc.intern(&Term{op: OExtract, sort: bvSort(nw), args: []*Term{a}, p: hi, q: lo})
}

func (tc *TermCtx) Zext(a *Term, to int) *Term {
	w := a.sort.W
	if to == w {
		return a
	}
	if to < w {
		panic("zext to smaller")
	}
	if a.isConst() {
		if to <= 64 {
			return tc.BV(to, a.c)
		}
		return tc.BVBig(to, a.constBig())
	}
	return tc.Concat(tc.BV(to-w, 0), a)
}

func (tc *TermCtx) Sext(a *Term, to int) *Term {
	w := a.sort.W
	if to == w {
		return a
	}
	if a.isConst() && to <= 64 {
		return tc.BV(to, uint64(signExt(a.c, w)))
	}
	return tc.intern(&Term{op: OSext, sort: bvSort(to), args: []*Term{a}, p: to - w})
}

// Int ops
func (tc *TermCtx) intbin(op Op, a, b *Term) *Term {
	if a.sort.K != SInt || b.sort.K != SInt {
		panic("intbin on non-int")
	}
	if a.isConst() && b.isConst() {
		x, y := a.bc, b.bc
		switch op {
		case OIntAdd:
			return tc.IntConst(new(big.Int).Add(x, y))
		case OIntSub:
			return tc.IntConst(new(big.Int).Sub(x, y))
		case OIntMul:
			return tc.IntConst(new(big.Int).Mul(x, y))
		case OIntDiv:
			if y.Sign() != 0 {
				return tc.IntConst(new(big.Int).Div(x, y)) // Euclidean, as SMT-LIB div
			}
		case OIntMod:
			if y.Sign() != 0 {
				return tc.IntConst(new(big.Int).Mod(x, y))
			}
		}
	}
	if op == OIntAdd {
		if a.isConst() && a.bc.Sign() == 0 {
			return b
		}
		if b.isConst() && b.bc.Sign() == 0 {
			return a
		}
	}
	if op == OIntSub && b.isConst() && b.bc.Sign() == 0 {
		return a
	}
	return tc.intern(&Term{op: op, sort: intSort, args: []*Term{a, b}})
}

func (tc *TermCtx) intcmp(op Op, a, b *Term) *Term {
	if a.isConst() && b.isConst() {
		c := a.bc.Cmp(b.bc)
		if op == OIntLt {
			return tc.Bool(c < 0)
		}
		return tc.Bool(c <= 0)
	}
	if a == b {
		return tc.Bool(op == OIntLe)
	}
	return tc.intern(&Term{op: op, sort: boolSort, args: []*Term{a, b}})
}

func (tc *TermCtx) Bv2Nat(a *Term) *Term {
	if a.isConst() {
		return tc.IntConst(a.constBig())
	}
	return tc.intern(&Term{op: OBv2Nat, sort: intSort, args: []*Term{a}})
}

func (tc *TermCtx) Int2Bv(a *Term, w int) *Term {
	if a.isConst() {
		return tc.BVBig(w, a.bc)
	}
	if a.op == OBv2Nat && a.args[0].sort.W == w {
		return a.args[0]
	}
	return tc.intern(&Term{op: OInt2Bv, sort: bvSort(w), args: []*Term{a}, p: w})
}

// Apply builds an uninterpreted function application; the declaration is registered once.
func (tc *TermCtx) Apply(name string, ret Sort, args ...*Term) *Term {
	if _, ok := tc.ufs[name]; !ok {
		var sb strings.Builder
		fmt.Fprintf(&sb, "(declare-fun %s (", name)
		for i, a := range args {
			if i > 0 {
				sb.WriteByte(' ')
			}
			sb.WriteString(a.sort.String())
		}
		fmt.Fprintf(&sb, ") %s)", ret)
		tc.ufs[name] = sb.String()
		tc.ufList = append(tc.ufList, name)
	}
	return tc.intern(&Term{op: OApply, sort: ret, name: name, args: args})
}

// ---------- printing ----------

func (t *Term) atomString() string {
	switch t.op {
	case OConst:
		switch t.sort.K {
		case SBool:
			if t.c == 1 {
				return "true"
			}
			return "false"
		case SBV:
			if t.sort.W%4 == 0 {
				return fmt.Sprintf("#x%0*s", t.sort.W/4, t.constBig().Text(16))
			}
			return fmt.Sprintf("#b%0*s", t.sort.W, t.constBig().Text(2))
		default:
			if t.bc.Sign() < 0 {
				return fmt.Sprintf("(- %s)", new(big.Int).Neg(t.bc).String())
			}
			return t.bc.String()
		}
	case OVar:
		return t.name
	}
	return fmt.Sprintf("t%d", t.id)
}

func (t *Term) isAtom() bool { return t.op == OConst || t.op == OVar }

// body prints the one-level definition of a composite term, referencing children by name.
func (t *Term) body() string {
	var sb strings.Builder
	switch t.op {
	case OExtract:
		fmt.Fprintf(&sb, "((_ extract %d %d) %s)", t.p, t.q, t.args[0].atomString())
	case OZext:
		fmt.Fprintf(&sb, "((_ zero_extend %d) %s)", t.p, t.args[0].atomString())
	case OSext:
		fmt.Fprintf(&sb, "((_ sign_extend %d) %s)", t.p, t.args[0].atomString())
	case OInt2Bv:
		fmt.Fprintf(&sb, "((_ int2bv %d) %s)", t.p, t.args[0].atomString())
	case OApply:
		if len(t.args) == 0 {
			return t.name
		}
		fmt.Fprintf(&sb, "(%s", t.name)
		for _, a := range t.args {
			sb.WriteByte(' ')
			sb.WriteString(a.atomString())
		}
		sb.WriteByte(')')
	case OIntNeg:
		fmt.Fprintf(&sb, "(- %s)", t.args[0].atomString())
	default:
		fmt.Fprintf(&sb, "(%s", opNames[t.op])
		for _, a := range t.args {
			sb.WriteByte(' ')
			sb.WriteString(a.atomString())
		}
		sb.WriteByte(')')
	}
	return sb.String()
}

// String renders the term fully inlined (for diagnostics; may be large).
func (t *Term) String() string {
	if t.isAtom() {
		return t.atomString()
	}
	var sb strings.Builder
	var rec func(t *Term, d int)
	rec = func(t *Term, d int) {
		if t.isAtom() {
			sb.WriteString(t.atomString())
			return
		}
		if d > 6 {
			sb.WriteString("…")
			return
		}
		switch t.op {
		case OExtract:
			fmt.Fprintf(&sb, "((_ extract %d %d) ", t.p, t.q)
		case OZext:
			fmt.Fprintf(&sb, "((_ zero_extend %d) ", t.p)
		case OSext:
			fmt.Fprintf(&sb, "((_ sign_extend %d) ", t.p)
		case OInt2Bv:
			fmt.Fprintf(&sb, "((_ int2bv %d) ", t.p)
		case OApply:
			fmt.Fprintf(&sb, "(%s ", t.name)
		default:
			fmt.Fprintf(&sb, "(%s ", opNames[t.op])
		}
		for i, a := range t.args {
			if i > 0 {
				sb.WriteByte(' ')
			}
			rec(a, d+1)
		}
		sb.WriteByte(')')
	}
	rec(t, 0)
	return sb.String()
}
