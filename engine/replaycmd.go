package main

import (
	"encoding/json"
	"fmt"
	"os"
	"path/filepath"
	"strings"
	"time"
)

// cmdReplay re-runs a recorded counterexample (a Candidate JSON written next to a VIOLATION line)
// against the natively compiled real code and prints the native transcript.
func cmdReplay(args []string) int {
	if len(args) < 1 {
		fmt.Fprintln(os.Stderr, "usage: symgo replay <candidate.json> [repo] [verif]")
		return 2
	}
	repo, verif := "/repo", "/verif"
	if len(args) > 1 {
		repo = args[1]
	}
	if len(args) > 2 {
		verif = args[2]
	}
	b, err := os.ReadFile(args[0])
	if err != nil {
		fmt.Fprintln(os.Stderr, err)
		return 2
	}
	var c Candidate
	if err := json.Unmarshal(b, &c); err != nil {
		fmt.Fprintln(os.Stderr, err)
		return 2
	}
	// find the run configuration (package, params, scale) in the check file
	raw, err := os.ReadFile(filepath.Join(verif, "checks", c.Property+".json"))
	if err != nil {
		fmt.Fprintln(os.Stderr, err)
		return 2
	}
	var cf CheckFile
	json.Unmarshal(raw, &cf)
	var run *RunEntry
	for k := range cf.Runs {
		if cf.Runs[k].Harness == c.Harness {
			run = &cf.Runs[k]
		}
	}
	if run == nil {
		fmt.Fprintln(os.Stderr, "harness not found in check file:", c.Harness)
		return 2
	}
	overlay := map[string][]byte{}
	readOverlayDir(filepath.Join(verif, "harness/headers"), filepath.Join(repo, "headers"), overlay)
	readOverlayDir(filepath.Join(verif, "harness/reader"), repo, overlay)
	if len(run.Scale) > 0 {
		if src, _, err := scaleHeadersSource(filepath.Join(repo, "headers/headers.go"), run.Scale); err == nil {
			overlay[filepath.Join(repo, "headers/headers.go")] = src
		}
	}
	rp := newReplayer(repo, verif, run.Scale, overlay)
	defer rp.cleanup()
	params := run.Params
	if c.Params != nil {
		params = c.Params
	}
	res, out, err := rp.run(run.Pkg, []replayCase{{Harness: c.Harness, Nondets: c.Nondets, Params: params}}, 5*time.Minute)
	if err != nil {
		fmt.Fprintln(os.Stderr, err)
		return 2
	}
	for _, l := range strings.Split(out, "\n") {
		if strings.HasPrefix(l, "VERIF-") || strings.HasPrefix(l, "panic") || strings.HasPrefix(l, "fatal error") {
			fmt.Println(l)
		}
	}
	fmt.Printf("native status: %s fails=%v panic=%q (recorded: kind=%s label=%s)\n", res[0].Status, res[0].Fails, res[0].PanicMsg, c.Kind, c.Label)
	if res[0].Status == "ok" {
		return 0
	}
	return 1
}
