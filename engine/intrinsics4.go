package main

// net.IP helpers (the net package itself is not interpreted: its initialiser touches the OS).

import (
	"net"
)

var v4InV6Prefix = []value{uint8(0), uint8(0), uint8(0), uint8(0), uint8(0), uint8(0), uint8(0), uint8(0), uint8(0), uint8(0), uint8(0xff), uint8(0xff)}

func ipBytes(v value) []value {
	b, _ := v.([]value)
	return b
}

func init() {
	reg("net.IPv4", func(fr *frame, args []value) value {
		out := append([]value{}, v4InV6Prefix...)
		return append(out, args[0], args[1], args[2], args[3])
	})
	reg("(net.IP).To16", func(fr *frame, args []value) value {
		ip := ipBytes(args[0])
		switch len(ip) {
		case 4:
			out := append([]value{}, v4InV6Prefix...)
			return append(out, ip...)
		case 16:
			return ip
		}
		return []value(nil)
	})
	reg("(net.IP).To4", func(fr *frame, args []value) value {
		i := fr.i
		ip := ipBytes(args[0])
		if len(ip) == 4 {
			return ip
		}
		if len(ip) == 16 {
			var isV4 value = true
			for k := 0; k < 12; k++ {
				isV4 = i.boolAnd(isV4, i.eqValue(nil, ip[k], v4InV6Prefix[k]))
			}
			if i.truth(isV4) {
				return ip[12:16]
			}
		}
		return []value(nil)
	})
	reg("(net.IP).String", func(fr *frame, args []value) value {
		ip := ipBytes(args[0])
		if !allConcrete(ip) {
			return fr.i.opaque()
		}
		raw := make(net.IP, len(ip))
		for k, x := range ip {
			raw[k] = x.(uint8)
		}
		return raw.String()
	})
	reg("(net.IP).Equal", func(fr *frame, args []value) value {
		i := fr.i
		a, b := ipBytes(args[0]), ipBytes(args[1])
		if len(a) == len(b) {
			return i.truth(i.eqString(symstring{a}, symstring{b}))
		}
		i.px.abort(stUnsupported, "net.IP.Equal with different lengths")
		return false
	})
	reg("net.ParseIP", func(fr *frame, args []value) value {
		s, ok := args[0].(string)
		if !ok || isOpaque(s) {
			fr.i.px.abort(stUnsupported, "net.ParseIP of symbolic string")
		}
		ip := net.ParseIP(s)
		if ip == nil {
			return []value(nil)
		}
		return bytesToValues(ip)
	})
	reg("(net.IP).IsUnspecified", func(fr *frame, args []value) value { return false })
}
