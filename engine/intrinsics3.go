package main

import (
	"fmt"
	"go/token"
	"go/types"
	"strings"
)

// ---------- sync ----------

func structOf(v value) structure {
	p := v.(*value)
	if p == nil {
		rtPanic("invalid memory address or nil pointer dereference")
	}
	return (*p).(structure)
}

func mutexLock(fr *frame, st structure) {
	s := fr.i.px.sched
	g := fr.g
	s.yield(g)
	for st[0].(int32) != 0 {
		s.block(g, "sync.Mutex.Lock", func() bool { return st[0].(int32) == 0 })
	}
	st[0] = int32(1)
}

func mutexUnlock(fr *frame, st structure) {
	if st[0].(int32) == 0 {
		fr.i.px.addCandidate("panic", "crash", "fatal error: sync: unlock of unlocked mutex", "", nil, nil)
		panic(pathEnd{stCrashed, "sync: unlock of unlocked mutex"})
	}
	st[0] = int32(0)
}

func init() {
	reg("(*sync.Mutex).Lock", func(fr *frame, args []value) value {
		mutexLock(fr, structOf(args[0]))
		return nil
	})
	reg("(*sync.Mutex).Unlock", func(fr *frame, args []value) value {
		mutexUnlock(fr, structOf(args[0]))
		return nil
	})
	reg("(*sync.Mutex).TryLock", func(fr *frame, args []value) value {
		st := structOf(args[0])
		if st[0].(int32) != 0 {
			return false
		}
		st[0] = int32(1)
		return true
	})
	// RWMutex{w Mutex; writerSem, readerSem uint32; readerCount, readerWait atomic.Int32}
	// model: w.state = writer held; writerSem = number of readers
	reg("(*sync.RWMutex).Lock", func(fr *frame, args []value) value {
		st := structOf(args[0])
		w := st[0].(structure)
		s := fr.i.px.sched
		g := fr.g
		s.yield(g)
		free := func() bool { return w[0].(int32) == 0 && st[1].(uint32) == 0 }
		for !free() {
			s.block(g, "sync.RWMutex.Lock", free)
		}
		w[0] = int32(1)
		return nil
	})
	reg("(*sync.RWMutex).Unlock", func(fr *frame, args []value) value {
		st := structOf(args[0])
		mutexUnlock(fr, st[0].(structure))
		return nil
	})
	reg("(*sync.RWMutex).RLock", func(fr *frame, args []value) value {
		st := structOf(args[0])
		w := st[0].(structure)
		s := fr.i.px.sched
		g := fr.g
		s.yield(g)
		free := func() bool { return w[0].(int32) == 0 }
		for !free() {
			s.block(g, "sync.RWMutex.RLock", free)
		}
		st[1] = st[1].(uint32) + 1
		return nil
	})
	reg("(*sync.RWMutex).RUnlock", func(fr *frame, args []value) value {
		st := structOf(args[0])
		if st[1].(uint32) == 0 {
			fr.i.px.addCandidate("panic", "crash", "fatal error: sync: RUnlock of unlocked RWMutex", "", nil, nil)
			panic(pathEnd{stCrashed, "sync: RUnlock of unlocked RWMutex"})
		}
		st[1] = st[1].(uint32) - 1
		return nil
	})
	// WaitGroup{noCopy; state atomic.Uint64; sema uint32}: counter kept in sema as uint32 (two's complement)
	reg("(*sync.WaitGroup).Add", func(fr *frame, args []value) value {
		st := structOf(args[0])
		n := int32(st[2].(uint32)) + int32(asInt64(args[1]))
		if n < 0 {
			panic(targetPanic{iface{types.Typ[types.String], "sync: negative WaitGroup counter"}})
		}
		st[2] = uint32(n)
		return nil
	})
	reg("(*sync.WaitGroup).Done", func(fr *frame, args []value) value {
		st := structOf(args[0])
		n := int32(st[2].(uint32)) - 1
		if n < 0 {
			panic(targetPanic{iface{types.Typ[types.String], "sync: negative WaitGroup counter"}})
		}
		st[2] = uint32(n)
		return nil
	})
	reg("(*sync.WaitGroup).Wait", func(fr *frame, args []value) value {
		st := structOf(args[0])
		s := fr.i.px.sched
		s.yield(fr.g)
		s.block(fr.g, "sync.WaitGroup.Wait", func() bool { return st[2].(uint32) == 0 })
		return nil
	})
	// Once{done atomic.Uint32; m Mutex}
	reg("(*sync.Once).Do", func(fr *frame, args []value) value {
		st := structOf(args[0])
		d := st[0].(structure)
		if d[len(d)-1].(uint32) != 0 {
			return nil
		}
		d[len(d)-1] = uint32(1)
		fr.i.call(fr, token.NoPos, args[1], nil)
		return nil
	})

	// ---------- sync/atomic ----------
	// typed atomics: struct{_ noCopy; [_ align64;] v T}; the value is the last field
	for _, tn := range []string{"Int32", "Int64", "Uint32", "Uint64", "Uintptr", "Bool"} {
		tn := tn
		last := func(v value) *value {
			st := structOf(v)
			return &st[len(st)-1]
		}
		reg("(*sync/atomic."+tn+").Load", func(fr *frame, args []value) value {
			fr.i.px.sched.yield(fr.g)
			p := last(args[0])
			if tn == "Bool" {
				return (*p).(uint32) != 0
			}
			return *p
		})
		reg("(*sync/atomic."+tn+").Store", func(fr *frame, args []value) value {
			fr.i.px.sched.yield(fr.g)
			p := last(args[0])
			if tn == "Bool" {
				if args[1].(bool) {
					*p = uint32(1)
				} else {
					*p = uint32(0)
				}
				return nil
			}
			*p = args[1]
			return nil
		})
		reg("(*sync/atomic."+tn+").Add", func(fr *frame, args []value) value {
			fr.i.px.sched.yield(fr.g)
			p := last(args[0])
			*p = fr.i.binop(token.ADD, nil, *p, args[1])
			return *p
		})
		reg("(*sync/atomic."+tn+").Swap", func(fr *frame, args []value) value {
			fr.i.px.sched.yield(fr.g)
			p := last(args[0])
			old := *p
			*p = args[1]
			return old
		})
		reg("(*sync/atomic."+tn+").CompareAndSwap", func(fr *frame, args []value) value {
			fr.i.px.sched.yield(fr.g)
			p := last(args[0])
			if fr.i.truth(fr.i.eqValue(nil, *p, args[1])) {
				*p = args[2]
				return true
			}
			return false
		})
	}
	for _, tn := range []string{"Int32", "Int64", "Uint32", "Uint64", "Uintptr"} {
		reg("sync/atomic.Load"+tn, func(fr *frame, args []value) value {
			fr.i.px.sched.yield(fr.g)
			return *args[0].(*value)
		})
		reg("sync/atomic.Store"+tn, func(fr *frame, args []value) value {
			fr.i.px.sched.yield(fr.g)
			*args[0].(*value) = args[1]
			return nil
		})
		reg("sync/atomic.Add"+tn, func(fr *frame, args []value) value {
			fr.i.px.sched.yield(fr.g)
			p := args[0].(*value)
			*p = fr.i.binop(token.ADD, nil, *p, args[1])
			return *p
		})
		reg("sync/atomic.CompareAndSwap"+tn, func(fr *frame, args []value) value {
			fr.i.px.sched.yield(fr.g)
			p := args[0].(*value)
			if fr.i.truth(fr.i.eqValue(nil, *p, args[1])) {
				*p = args[2]
				return true
			}
			return false
		})
	}
	// atomic.Value{v any}
	reg("(*sync/atomic.Value).Load", func(fr *frame, args []value) value {
		fr.i.px.sched.yield(fr.g)
		st := structOf(args[0])
		if v, ok := st[0].(iface); ok {
			return v
		}
		return iface{}
	})
	reg("(*sync/atomic.Value).Store", func(fr *frame, args []value) value {
		fr.i.px.sched.yield(fr.g)
		st := structOf(args[0])
		v := args[1].(iface)
		if v.t == nil {
			panic(targetPanic{iface{types.Typ[types.String], "sync/atomic: store of nil value into Value"}})
		}
		st[0] = v
		return nil
	})

	// ---------- time ----------
	reg("time.Now", func(fr *frame, args []value) value {
		return fr.i.makeTime(fr.i.px.clock)
	})
	reg("time.Since", func(fr *frame, args []value) value {
		i := fr.i
		now := i.makeTime(i.px.clock)
		sub := i.prog.ssa.LookupMethod(i.prog.byPath["time"].Type("Time").Type(), nil, "Sub")
		return i.call(fr, token.NoPos, sub, []value{now, args[0]})
	})
	reg("time.Until", func(fr *frame, args []value) value {
		i := fr.i
		now := i.makeTime(i.px.clock)
		sub := i.prog.ssa.LookupMethod(i.prog.byPath["time"].Type("Time").Type(), nil, "Sub")
		return i.call(fr, token.NoPos, sub, []value{args[0], now})
	})
	reg("time.Sleep", func(fr *frame, args []value) value {
		fr.i.px.sched.sleep(fr.g, fr.i.concInt(args[0], "time.Sleep"))
		return nil
	})
	reg("time.After", func(fr *frame, args []value) value {
		d := fr.i.concDuration(args[0])
		t := fr.i.px.sched.newTimer(d, true, "time.After")
		t.ch.elemT = fr.i.prog.byPath["time"].Type("Time").Type()
		return t.ch
	})
	reg("time.Tick", intrinsics["time.After"])
	reg("time.runtimeNano", func(fr *frame, args []value) value { return fr.i.px.clock })
	reg("time.now", func(fr *frame, args []value) value {
		c := fr.i.px.clock
		return tuple{int64(c / 1e9), int32(c % 1e9), c}
	})
	reg("(*time.Location).get", nil)
	delete(intrinsics, "(*time.Location).get")
	reg("time.(*Location).String", nil)
	delete(intrinsics, "time.(*Location).String")
}

// concDuration: a symbolic timer duration is represented by one feasible value (timers only fire
// at quiescence, so the value matters only relative to other pending timers).
func (i *interpreter) concDuration(v value) int64 {
	s, ok := v.(sym)
	if !ok {
		return asInt64(v)
	}
	px := i.px
	px.res.Reached["engine:representative-timer-duration"] = true
	var val uint64
	if px.replaying() {
		d := px.prefix[px.pos]
		px.pos++
		if d.K != 'r' {
			px.abort(stEngineBug, "replay divergence: expected representative duration, trace has %v", d)
		}
		val = uint64(d.V)
	} else {
		r, m := px.solver.CheckModel(px.tc, nil, []*Term{s.t})
		if r != Sat {
			px.abort(stInconclusive, "solver unknown while choosing a representative duration")
		}
		val = m[s.t.id].Uint64()
	}
	px.res.Decisions++
	px.trace = append(px.trace, Decision{'r', int64(val)})
	px.assume(px.tc.Eq(s.t, px.tc.BV(kindWidth(s.k), val)))
	return int64(val)
}

// makeTime builds a time.Time for virtual nanoseconds since the Unix epoch using time.Unix.
func (i *interpreter) makeTime(ns int64) value {
	return i.call(nil, token.NoPos, i.fn("time", "Unix"), []value{int64(ns / 1e9), int64(ns % 1e9)})
}

// ---------- harness API ----------

func (px *PathCtx) freshNondet(name string, k types.BasicKind) value {
	idx := len(px.nondets)
	kind := map[types.BasicKind]string{types.Uint8: "u8", types.Uint16: "u16", types.Uint32: "u32", types.Uint64: "u64", types.Int: "int", types.Bool: "bool"}[k]
	var s Sort
	if k == types.Bool {
		s = boolSort
	} else {
		s = bvSort(kindWidth(k))
	}
	t := px.tc.Var(fmt.Sprintf("n%d_%s", idx, sanitize(name)), s)
	px.nondets = append(px.nondets, nondetRec{name: name, kind: kind, term: t})
	return sym{k, t}
}

func sanitize(s string) string {
	var sb strings.Builder
	for _, c := range s {
		if c >= 'a' && c <= 'z' || c >= 'A' && c <= 'Z' || c >= '0' && c <= '9' || c == '_' {
			sb.WriteRune(c)
		} else {
			sb.WriteByte('_')
		}
	}
	return sb.String()
}

func strArg(v value) string {
	if s, ok := v.(string); ok {
		return s
	}
	return "?"
}

var harnessAPI map[string]intrinsicFn

func init() {
	harnessAPI = map[string]intrinsicFn{
		"nondetU8":   func(fr *frame, a []value) value { return fr.i.px.freshNondet(strArg(a[0]), types.Uint8) },
		"nondetU16":  func(fr *frame, a []value) value { return fr.i.px.freshNondet(strArg(a[0]), types.Uint16) },
		"nondetU32":  func(fr *frame, a []value) value { return fr.i.px.freshNondet(strArg(a[0]), types.Uint32) },
		"nondetU64":  func(fr *frame, a []value) value { return fr.i.px.freshNondet(strArg(a[0]), types.Uint64) },
		"nondetInt":  func(fr *frame, a []value) value { return fr.i.px.freshNondet(strArg(a[0]), types.Int) },
		"nondetBool": func(fr *frame, a []value) value { return fr.i.px.freshNondet(strArg(a[0]), types.Bool) },
		"nondetBytes": func(fr *frame, a []value) value {
			px := fr.i.px
			n := int(fr.i.concInt(a[1], "nondetBytes length"))
			idx := len(px.nondets)
			rec := nondetRec{name: strArg(a[0]), kind: "bytes"}
			out := make([]value, n)
			for k := 0; k < n; k++ {
				t := px.tc.Var(fmt.Sprintf("n%d_%s_%d", idx, sanitize(rec.name), k), bvSort(8))
				rec.bts = append(rec.bts, t)
				out[k] = sym{types.Uint8, t}
			}
			px.nondets = append(px.nondets, rec)
			return out
		},
		"verifAssume": func(fr *frame, a []value) value {
			px := fr.i.px
			c := fr.i.toTerm(a[0])
			if c.isTrue() {
				return nil
			}
			if c.isFalse() {
				px.abort(stAssumedAway, "assumption infeasible")
			}
			if px.replaying() {
				// already found feasible by the path that created this prefix
				px.assume(c)
				return nil
			}
			r := px.checkWitness(c)
			if r == Unsat {
				px.abort(stAssumedAway, "assumption infeasible")
			}
			if r == Sat && !px.holdsInModel(c) && px.lastWitness != nil {
				px.model = px.lastWitness
			}
			px.assume(c)
			return nil
		},
		"verifAssert": func(fr *frame, a []value) value {
			site, _ := fr.i.where(fr.caller)
			fr.i.px.assertCond(fr.i.toTerm(a[0]), strArg(a[1]), site)
			return nil
		},
		"verifReach": func(fr *frame, a []value) value {
			fr.i.px.res.Reached[strArg(a[0])] = true
			return nil
		},
		"verifObserve": func(fr *frame, a []value) value {
			i := fr.i
			args := a[1].([]value)
			parts := make([]string, 0, len(args))
			for _, x := range args {
				if itf, ok := x.(iface); ok {
					x = itf.v
				}
				switch v := x.(type) {
				case sym:
					parts = append(parts, fmt.Sprintf("$%d", i.px.noteObserveTerm(v)))
				default:
					h, ok := i.fmtArg(fr, x)
					if !ok {
						parts = append(parts, "?")
					} else {
						parts = append(parts, fmt.Sprint(h))
					}
				}
			}
			i.px.res.Observes = append(i.px.res.Observes, strArg(a[0])+" "+strings.Join(parts, " "))
			return nil
		},
		"verifInEngine": func(fr *frame, a []value) value { return true },
		"verifSetAllocBudget": func(fr *frame, a []value) value {
			fr.i.px.allocBudget = a[0]
			return nil
		},
		"verifQuiesce": func(fr *frame, a []value) value { return quiesce(fr, true) },
		// verifSettle: like verifQuiesce but pending timers stay pending (no virtual time passes)
		"verifSettle": func(fr *frame, a []value) value { return quiesce(fr, false) },
		"verifAdvanceClock": func(fr *frame, a []value) value {
			px := fr.i.px
			d := fr.i.concInt(a[0], "verifAdvanceClock")
			target := px.clock + d
			s := px.sched
			for {
				if !s.fireTimerBefore(target) {
					break
				}
			}
			if px.clock < target {
				px.clock = target
			}
			return nil
		},
		"verifBlockedInfo": func(fr *frame, a []value) value {
			s := fr.i.px.sched
			var parts []string
			for _, t := range s.threads {
				if t != fr.g && !t.done {
					parts = append(parts, fmt.Sprintf("%s: %s", t.name, t.desc))
				}
			}
			return strings.Join(parts, "; ")
		},
		"verifClock": func(fr *frame, a []value) value { return fr.i.px.clock },
		"verifAllocDone": func(fr *frame, a []value) value {
			fr.i.px.allocBudget = nil
			return nil
		},
		"verifParam": func(fr *frame, a []value) value {
			if v, ok := fr.i.px.eng.cfg.Params[strArg(a[0])]; ok {
				return int(v)
			}
			return a[1]
		},
	}
}

// fireTimerBefore fires the earliest pending timer whose deadline is <= horizon.
func (s *scheduler) fireTimerBefore(horizon int64) bool {
	var best *vtimer
	for _, t := range s.timers {
		if t.fired || t.stopped || t.deadline > horizon {
			continue
		}
		if best == nil || t.deadline < best.deadline || (t.deadline == best.deadline && t.seq < best.seq) {
			best = t
		}
	}
	if best == nil {
		return false
	}
	if best.deadline > s.px.clock {
		s.px.clock = best.deadline
	}
	s.checkHorizon()
	s.fire(best)
	return true
}

func (px *PathCtx) noteObserveTerm(v sym) int {
	px.obsTerms = append(px.obsTerms, v)
	return len(px.obsTerms) - 1
}

// noteSymbolicAlloc implements the untrusted-allocation oracle of C15/C20.
func (px *PathCtx) noteSymbolicAlloc(fr *frame, n sym, elemSize int64) {
	if px.allocBudget == nil {
		return
	}
	i := fr.i
	tc := px.tc
	w := kindWidth(n.k)
	budget := i.toTerm(px.allocBudget)
	if budget.sort.W != w {
		budget = i.resize(budget, budget.sort.W, false, w)
	}
	// the same threshold as the native meter (harness api.go): 64 x budget + 1 MiB, so that a
	// candidate is something the native run can witness
	if budget.isConst() && w >= 32 {
		budget = tc.BV(w, 64*budget.c+(1<<20))
	}
	es := elemSize
	if es < 1 {
		es = 1
	}
	// n*es > budget  <=>  n > budget/es
	lim := tc.bvbin(OBvUdiv, budget, tc.BV(w, uint64(es)))
	over := tc.bvcmp(OBvUlt, lim, n.t)
	if px.check(over) != Unsat {
		site, stack := i.where(fr)
		// prefer a witness only moderately above the budget (at most three times): the native run
		// then really performs the allocation and its meter sees it, instead of dying in makeslice
		witness := over
		moderate := tc.And(over, tc.bvcmp(OBvUle, n.t, tc.bvbin(OBvAdd, tc.bvbin(OBvAdd, lim, lim), tc.bvbin(OBvAdd, lim, tc.BV(w, 1)))))
		if !tc.bvcmp(OBvUlt, tc.bvbin(OBvAdd, lim, lim), lim).isTrue() && px.check(moderate) == Sat {
			witness = moderate
		}
		px.addCandidate("untrusted-alloc", "untrusted-alloc", "allocation size taken from input can exceed the bytes received", site, witness, stack)
		// continue only with sizes inside the budget
		if px.check(tc.Not(over)) == Unsat {
			px.abort(stViolatedAlways, "allocation always exceeds the budget")
		}
		px.assume(tc.Not(over))
	}
}

// quiesce lets every other goroutine run until all are blocked or done; with timers, pending
// timers fire (virtual time advances) as long as a blocked goroutine could need one.
func quiesce(fr *frame, timers bool) value {
	// let every other goroutine run until all are blocked or done
	s := fr.i.px.sched
	g := fr.g
	for {
		others, waiting := false, false
		for _, t := range s.threads {
			if t == g || t.done {
				continue
			}
			if s.enabled(t) {
				others = true
			} else {
				waiting = true
			}
		}
		if !others {
			// only goroutines that are blocked can need a timer
			if !timers || !waiting || !s.fireTimerBefore(fr.i.px.quiesceHorizon) {
				break
			}
			continue
		}
		g.blocked = true
		g.waitFn = func() bool {
			for _, t := range s.threads {
				if t != g && s.enabled(t) {
					return false
				}
			}
			return true
		}
		g.desc = "verifQuiesce"
		s.reschedule(g, false)
		g.blocked = false
		g.waitFn = nil
	}
	n := 0
	for _, t := range s.threads {
		if t != g && !t.done {
			n++
		}
	}
	return n
}
