package main

// Intrinsics: models of functions that are not interpreted from SSA (environment, reflection-
// or assembly-based std functions, hashing, math/big, sync, time, logging).

import (
	"crypto/sha256"
	"fmt"
	"go/token"
	"go/types"
	"strings"

	"golang.org/x/tools/go/ssa"
)

var intrinsics = map[string]intrinsicFn{}

func reg(name string, f intrinsicFn) { intrinsics[name] = f }

func (i *interpreter) fn(pkg, name string) *ssa.Function {
	p := i.prog.byPath[pkg]
	if p == nil {
		panic("package not loaded: " + pkg)
	}
	f := p.Func(name)
	if f == nil {
		panic("function not found: " + pkg + "." + name)
	}
	return f
}

// invoke calls method name on an interface value.
func (i *interpreter) invoke(fr *frame, recv iface, name string, args ...value) value {
	if recv.t == nil {
		rtPanic("invalid memory address or nil pointer dereference")
	}
	ms := i.prog.ssa.MethodSets.MethodSet(recv.t)
	for k := 0; k < ms.Len(); k++ {
		sel := ms.At(k)
		if sel.Obj().Name() == name {
			f := i.prog.ssa.MethodValue(sel)
			return i.call(fr, token.NoPos, f, append([]value{recv.v}, args...))
		}
	}
	panic(fmt.Sprintf("invoke: type %v has no method %s", recv.t, name))
}

func (i *interpreter) hasMethod(t types.Type, name string) bool {
	ms := i.prog.ssa.MethodSets.MethodSet(t)
	for k := 0; k < ms.Len(); k++ {
		if ms.At(k).Obj().Name() == name {
			return true
		}
	}
	return false
}

// newError builds an error value with the given message (std errors.New).
func (i *interpreter) newError(fr *frame, msg value) value {
	return i.call(fr, token.NoPos, i.fn("errors", "New"), []value{msg})
}

// pkgStub returns a generic stub for whole packages that are modelled as no-ops.
func pkgStub(pkgPath string, fn *ssa.Function) intrinsicFn {
	switch pkgPath {
	case "github.com/tokenized/logger":
		return func(fr *frame, args []value) value {
			res := fn.Signature.Results()
			// functions returning a context pass their first context argument through
			params := fn.Signature.Params()
			off := 0
			if fn.Signature.Recv() != nil {
				off = 1
			}
			if res.Len() == 1 && res.At(0).Type().String() == "context.Context" {
				for k := 0; k < params.Len(); k++ {
					if params.At(k).Type().String() == "context.Context" {
						return args[k+off]
					}
				}
			}
			if res.Len() == 0 {
				return nil
			}
			// pointer results: allocate a zero object so method calls on it do not fault
			if res.Len() == 1 {
				if p, ok := res.At(0).Type().Underlying().(*types.Pointer); ok {
					v := zero(p.Elem())
					return &v
				}
			}
			return zero(res)
		}
	case "os/signal", "runtime/debug", "runtime/pprof", "log":
		return func(fr *frame, args []value) value {
			res := fn.Signature.Results()
			if res.Len() == 0 {
				return nil
			}
			return zero(res)
		}
	}
	return nil
}

func init() {
	// ---- runtime / misc environment ----
	zeroRes := func(fr *frame, args []value) value {
		res := fr.fn.Signature.Results()
		if res.Len() == 0 {
			return nil
		}
		return zero(res)
	}
	for _, n := range []string{
		"runtime.Callers", "runtime.Caller", "runtime.GC", "runtime.Gosched", "runtime.KeepAlive",
		"runtime.SetFinalizer", "runtime.Stack", "runtime.NumGoroutine", "runtime.FuncForPC",
		"(*runtime.Func).Name", "(*runtime.Func).FileLine", "runtime.CallersFrames",
		"os.Getenv", "os.Getpid",
	} {
		reg(n, zeroRes)
	}
	reg("runtime.GOMAXPROCS", func(fr *frame, args []value) value { return 1 })
	reg("runtime.NumCPU", func(fr *frame, args []value) value { return 1 })
	reg("os.Exit", func(fr *frame, args []value) value {
		fr.i.px.abort(stUnsupported, "os.Exit called")
		return nil
	})
	reg("runtime.Goexit", func(fr *frame, args []value) value {
		fr.i.px.abort(stUnsupported, "runtime.Goexit")
		return nil
	})

	// ---- internal/bytealg (assembly) ----
	reg("internal/bytealg.IndexByte", func(fr *frame, args []value) value {
		return fr.i.indexByte(args[0].([]value), args[1])
	})
	reg("internal/bytealg.IndexByteString", func(fr *frame, args []value) value {
		return fr.i.indexByte(strBytes(args[0]), args[1])
	})
	reg("internal/bytealg.Equal", func(fr *frame, args []value) value {
		return fr.i.truth(fr.i.eqString(normString(args[0].([]value)), normString(args[1].([]value))))
	})
	reg("bytes.Equal", func(fr *frame, args []value) value {
		return fr.i.truth(fr.i.eqString(normString(args[0].([]value)), normString(args[1].([]value))))
	})
	reg("internal/bytealg.Compare", func(fr *frame, args []value) value {
		a, b := fr.i.concBytes(args[0].([]value), "bytes.Compare"), fr.i.concBytes(args[1].([]value), "bytes.Compare")
		return strings.Compare(string(a), string(b))
	})
	reg("bytes.Compare", intrinsics["internal/bytealg.Compare"])
	reg("internal/bytealg.Count", func(fr *frame, args []value) value {
		a := fr.i.concBytes(args[0].([]value), "bytealg.Count")
		c := byte(fr.i.concInt(args[1], "bytealg.Count"))
		n := 0
		for _, x := range a {
			if x == c {
				n++
			}
		}
		return n
	})
	reg("internal/bytealg.CountString", func(fr *frame, args []value) value {
		a := fr.i.concBytes(strBytes(args[0]), "bytealg.CountString")
		c := byte(fr.i.concInt(args[1], "bytealg.CountString"))
		n := 0
		for _, x := range a {
			if x == c {
				n++
			}
		}
		return n
	})
	reg("internal/bytealg.IndexString", func(fr *frame, args []value) value {
		a := fr.i.concBytes(strBytes(args[0]), "strings.Index")
		b := fr.i.concBytes(strBytes(args[1]), "strings.Index")
		return strings.Index(string(a), string(b))
	})
	reg("internal/bytealg.Index", func(fr *frame, args []value) value {
		a := fr.i.concBytes(args[0].([]value), "bytes.Index")
		b := fr.i.concBytes(args[1].([]value), "bytes.Index")
		return strings.Index(string(a), string(b))
	})
	reg("internal/bytealg.MakeNoZero", func(fr *frame, args []value) value {
		n := fr.i.concInt(args[0], "MakeNoZero")
		s := make([]value, n)
		for k := range s {
			s[k] = uint8(0)
		}
		return s
	})
	reg("internal/stringslite.Index", intrinsics["internal/bytealg.IndexString"])
	reg("strings.Index", intrinsics["internal/bytealg.IndexString"])
	reg("strings.Contains", func(fr *frame, args []value) value {
		a := fr.i.concBytes(strBytes(args[0]), "strings.Contains")
		b := fr.i.concBytes(strBytes(args[1]), "strings.Contains")
		return strings.Contains(string(a), string(b))
	})

	// ---- strings.Builder (uses unsafe) ----
	reg("(*strings.Builder).String", func(fr *frame, args []value) value {
		st := (*args[0].(*value)).(structure)
		buf, _ := st[1].([]value)
		return normString(append([]value{}, buf...))
	})
	reg("(*strings.Builder).copyCheck", func(fr *frame, args []value) value { return nil })
	// run-time errors raised by the engine carry their full message as the value
	reg("(runtime.errorString).Error", func(fr *frame, args []value) value {
		msg := toString(args[0])
		if !strings.HasPrefix(msg, "runtime error: ") {
			msg = "runtime error: " + msg
		}
		return msg
	})
	reg("(runtime.errorString).RuntimeError", func(fr *frame, args []value) value { return nil })
	reg("(*strings.Builder).grow", nil)
	delete(intrinsics, "(*strings.Builder).grow")

	// ---- unicode/utf8 fast paths are interpreted; nothing here ----

	// ---- crypto/sha256 ----
	reg("crypto/sha256.Sum256", func(fr *frame, args []value) value {
		out := fr.i.px.hash256(fr.i, args[0].([]value))
		return array(out)
	})
	reg("crypto/sha256.New", func(fr *frame, args []value) value {
		i := fr.i
		dt := i.prog.byPath["crypto/sha256"].Type("digest").Type()
		st := zero(dt).(structure)
		st[0] = &shaState{}
		var cell value = st
		return iface{t: types.NewPointer(dt), v: &cell}
	})
	shaOf := func(v value) *shaState {
		st := (*v.(*value)).(structure)
		s, ok := st[0].(*shaState)
		if !ok {
			s = &shaState{}
			st[0] = s
		}
		return s
	}
	reg("(*crypto/sha256.digest).Write", func(fr *frame, args []value) value {
		s := shaOf(args[0])
		p := args[1].([]value)
		s.buf = append(s.buf, p...)
		return tuple{len(p), iface{}}
	})
	reg("(*crypto/sha256.digest).Sum", func(fr *frame, args []value) value {
		s := shaOf(args[0])
		out := fr.i.px.hash256(fr.i, s.buf)
		in, _ := args[1].([]value)
		return fr.i.appendValues(types.Typ[types.Uint8], in, out)
	})
	reg("(*crypto/sha256.digest).Reset", func(fr *frame, args []value) value {
		shaOf(args[0]).buf = nil
		return nil
	})
	reg("(*crypto/sha256.digest).Size", func(fr *frame, args []value) value { return 32 })
	reg("(*crypto/sha256.digest).BlockSize", func(fr *frame, args []value) value { return 64 })

	// ---- math/rand, crypto/rand, uuid ----
	reg("math/rand.Seed", func(fr *frame, args []value) value { return nil })
	reg("math/rand.Shuffle", func(fr *frame, args []value) value {
		// identity permutation unless the check asks for every permutation
		i := fr.i
		n := int(i.concInt(args[0], "rand.Shuffle n"))
		if i.px.eng.cfg.ShufflePermutations {
			for k := n - 1; k > 0; k-- {
				opts := make([]int64, k+1)
				for j := range opts {
					opts[j] = int64(j)
				}
				j := i.px.choose('n', opts)
				i.call(fr, token.NoPos, args[1], []value{k, int(j)})
			}
		}
		return nil
	})
	reg("math/rand.Uint32", func(fr *frame, args []value) value { return fr.i.px.freshNondet("rand.Uint32", types.Uint32) })
	reg("math/rand.Uint64", func(fr *frame, args []value) value { return fr.i.px.freshNondet("rand.Uint64", types.Uint64) })
	reg("math/rand.Int63", func(fr *frame, args []value) value { return int64(0) })
	reg("math/rand.Intn", func(fr *frame, args []value) value { return 0 })
	reg("math/rand.Int", func(fr *frame, args []value) value { return 0 })
	reg("math/rand.Read", func(fr *frame, args []value) value {
		p := args[0].([]value)
		for k := range p {
			p[k] = uint8(0)
		}
		return tuple{len(p), iface{}}
	})
	reg("crypto/rand.Read", intrinsics["math/rand.Read"])
	reg("github.com/google/uuid.New", func(fr *frame, args []value) value {
		px := fr.i.px
		px.uuidSeq++
		a := make(array, 16)
		for k := range a {
			a[k] = uint8(0)
		}
		a[0] = uint8(0xee)
		a[14] = uint8(px.uuidSeq >> 8)
		a[15] = uint8(px.uuidSeq)
		return a
	})
	reg("(github.com/google/uuid.UUID).String", func(fr *frame, args []value) value {
		a := args[0].(array)
		return fmt.Sprintf("uuid-%d", int(a[14].(uint8))<<8|int(a[15].(uint8)))
	})
}

type shaState struct {
	buf []value
}

func (i *interpreter) indexByte(b []value, c value) value {
	for k, x := range b {
		if i.truth(i.eqValue(nil, x, c)) {
			return k
		}
	}
	return -1
}

// concBytes forces every byte concrete (forking); used by rarely-needed string intrinsics.
func (i *interpreter) concBytes(b []value, what string) []byte {
	out := make([]byte, len(b))
	for k, x := range b {
		out[k] = byte(i.concInt(x, what))
	}
	return out
}

// ---------- hashing ----------

func realSha256(in []value) [32]byte {
	b := make([]byte, len(in))
	for k, x := range in {
		b[k] = x.(uint8)
	}
	return sha256.Sum256(b)
}

func allConcrete(in []value) bool {
	for _, x := range in {
		if _, ok := x.(uint8); !ok {
			return false
		}
	}
	return true
}

// hash256 models SHA-256 (see DESIGN §2.4): real digest for concrete input, otherwise an injective
// token (token mode) or an uninterpreted function with collision-freedom axioms (UF mode).
func (px *PathCtx) hash256(i *interpreter, in []value) []value {
	px.res.HashInputs++
	conc := allConcrete(in)
	mode := px.eng.cfg.HashMode
	if conc {
		symSeen := false
		for _, h := range px.hashes {
			if h.sym {
				symSeen = true
				break
			}
		}
		if !symSeen {
			d := realSha256(in)
			px.hashes = append(px.hashes, hashRec{in: append([]value(nil), in...), out: bytesToValues(d[:])})
			return bytesToValues(d[:])
		}
	}
	input := append([]value(nil), in...)
	if mode == "uf" {
		return px.hashUF(i, input, conc)
	}
	// token mode: decide equality with each earlier input
	for _, h := range px.hashes {
		if len(h.in) != len(input) {
			continue
		}
		if !h.sym && conc {
			same := true
			for k := range input {
				if input[k].(uint8) != h.in[k].(uint8) {
					same = false
					break
				}
			}
			if same {
				return append([]value(nil), h.out...)
			}
			continue
		}
		eq := i.eqString(symstring{h.in}, symstring{input})
		if i.truth(eq) {
			return append([]value(nil), h.out...)
		}
	}
	var out []value
	if conc {
		d := realSha256(input)
		out = bytesToValues(d[:])
	} else {
		px.tokenSeq++
		d := sha256.Sum256([]byte(fmt.Sprintf("symgo-token-%d", px.tokenSeq)))
		d = sha256.Sum256(d[:])
		out = bytesToValues(d[:])
	}
	px.hashes = append(px.hashes, hashRec{in: input, out: out, sym: !conc})
	return append([]value(nil), out...)
}

func bytesToValues(b []byte) []value {
	out := make([]value, len(b))
	for k, x := range b {
		out[k] = x
	}
	return out
}

func (i *interpreter) bytesTerm(b []value) *Term {
	tc := i.px.tc
	var t *Term
	for _, x := range b {
		bt := i.toTerm(x)
		if t == nil {
			t = bt
		} else {
			t = tc.Concat(t, bt)
		}
	}
	return t
}

func (px *PathCtx) hashUF(i *interpreter, input []value, conc bool) []value {
	tc := px.tc
	var outT *Term
	var out []value
	if conc {
		d := realSha256(input)
		out = bytesToValues(d[:])
	} else {
		if len(input) == 0 {
			d := sha256.Sum256(nil)
			return bytesToValues(d[:])
		}
		inT := i.bytesTerm(input)
		outT = tc.Apply(fmt.Sprintf("H%d", len(input)), bvSort(256), inT)
		out = make([]value, 32)
		for k := 0; k < 32; k++ {
			out[k] = mkSym(types.Uint8, tc.Extract(outT, 255-8*k, 248-8*k))
		}
	}
	// axioms against every earlier record
	for _, h := range px.hashes {
		if !h.sym && conc {
			continue
		}
		outEq := i.toTerm(i.eqString(symstring{h.out}, symstring{out}))
		if len(h.in) != len(input) {
			px.assume(tc.Not(outEq))
			continue
		}
		inEq := i.toTerm(i.eqString(symstring{h.in}, symstring{input}))
		px.assume(tc.Eq(inEq, outEq))
	}
	px.hashes = append(px.hashes, hashRec{in: input, out: out, sym: !conc})
	return append([]value(nil), out...)
}
