package main

import (
	"fmt"
	"go/token"
	"go/types"
	"os"
	"path/filepath"
	"strings"
	"sync"

	"golang.org/x/tools/go/packages"
	"golang.org/x/tools/go/ssa"
	"golang.org/x/tools/go/ssa/ssautil"
)

type fnInfo struct {
	slotOnce  sync.Once
	slots     map[ssa.Value]int
	name      string
	class     int // 0 interpreted, 1 intrinsic, 2 stub
	intrinsic intrinsicFn
	skipInit  bool
}

type intrinsicFn func(fr *frame, args []value) value

type Program struct {
	ssa    *ssa.Program
	fset   *token.FileSet
	pkgs   []*packages.Package
	byPath map[string]*ssa.Package
	sizes  types.Sizes
	rootFn *ssa.Function

	mu    sync.RWMutex
	infos map[*ssa.Function]*fnInfo

	interpPrefixes []string
}

// Packages whose code is executed from SSA (everything else must be an intrinsic or stub).
var defaultInterpreted = []string{
	"github.com/tokenized/bitcoin_reader",
	"github.com/tokenized/pkg/bitcoin",
	"github.com/tokenized/pkg/wire",
	"github.com/tokenized/pkg/merkle_proof",
	"github.com/tokenized/pkg/storage",
	"github.com/tokenized/pkg/bsor",
	"github.com/tokenized/pkg/json",
	"github.com/tokenized/threads",
	"github.com/tokenized/config",
	"github.com/pkg/errors",
	"sort", "slices", "bytes", "io", "errors", "strings", "unicode/utf8", "math/bits",
	"encoding/hex", "encoding/binary", "time", "context", "container/list", "strconv", "math",
	"internal/bytealg", "internal/itoa", "internal/stringslite", "cmp", "internal/byteorder",
	"net", "bufio",
}

func (p *Program) isInterpreted(path string) bool {
	for _, pre := range p.interpPrefixes {
		if path == pre || (strings.HasPrefix(path, pre+"/") && strings.Contains(pre, ".")) {
			return true
		}
	}
	return false
}

// loadProgram loads /repo (current working tree) plus overlay files and builds SSA.
func loadProgram(repoDir string, overlay map[string][]byte, patterns []string) (*Program, error) {
	cfg := &packages.Config{
		Mode:    packages.LoadAllSyntax,
		Dir:     repoDir,
		Overlay: overlay,
		Env:     append(os.Environ(), "GOFLAGS=-mod=mod", "GOPROXY=off", "GOSUMDB=off", "GOTOOLCHAIN=local", "CGO_ENABLED=0"),
		Tests:   false,
	}
	pkgs, err := packages.Load(cfg, patterns...)
	if err != nil {
		return nil, err
	}
	var errs []string
	packages.Visit(pkgs, nil, func(p *packages.Package) {
		for _, e := range p.Errors {
			errs = append(errs, e.Error())
		}
	})
	if len(errs) > 0 {
		return nil, fmt.Errorf("package errors:\n%s", strings.Join(errs, "\n"))
	}
	prog, _ := ssautil.AllPackages(pkgs, ssa.InstantiateGenerics|ssa.SanityCheckFunctions&0)
	prog.Build()
	p := &Program{
		ssa: prog, fset: prog.Fset, pkgs: pkgs, byPath: map[string]*ssa.Package{},
		sizes: types.SizesFor("gc", "amd64"), infos: map[*ssa.Function]*fnInfo{},
		interpPrefixes: defaultInterpreted,
	}
	for _, sp := range prog.AllPackages() {
		p.byPath[sp.Pkg.Path()] = sp
	}
	// a synthetic root function used as the bottom frame of goroutines
	for _, sp := range pkgs {
		if s := prog.Package(sp.Types); s != nil {
			p.rootFn = s.Func("init")
			break
		}
	}
	return p, nil
}

func (p *Program) fnInfo(fn *ssa.Function) *fnInfo {
	p.mu.RLock()
	info := p.infos[fn]
	p.mu.RUnlock()
	if info != nil {
		return info
	}
	info = &fnInfo{name: fn.String()}
	pkgPath := ""
	if fn.Pkg != nil {
		pkgPath = fn.Pkg.Pkg.Path()
	} else if o := fn.Origin(); o != nil && o.Pkg != nil {
		pkgPath = o.Pkg.Pkg.Path()
	} else if fn.Object() != nil && fn.Object().Pkg() != nil {
		pkgPath = fn.Object().Pkg().Path()
	}
	key := info.name
	if o := fn.Origin(); o != nil {
		key = o.String()
	}
	if f, ok := harnessAPI[fn.Name()]; ok && fn.Parent() == nil && fn.Signature.Recv() == nil && strings.HasPrefix(pkgPath, "github.com/tokenized/bitcoin_reader") {
		info.intrinsic = f
		info.class = 1
	} else if f, ok := intrinsics[key]; ok {
		info.intrinsic = f
		info.class = 1
	} else if f, ok := intrinsics[info.name]; ok {
		info.intrinsic = f
		info.class = 1
	} else if f := pkgStub(pkgPath, fn); f != nil {
		info.intrinsic = f
		info.class = 2
	} else if fn.Synthetic == "package initializer" && !p.isInterpreted(pkgPath) {
		info.skipInit = true
		info.class = 2
	} else if fn.Parent() == nil && fn.Name() == "init" && strings.HasPrefix(fn.Synthetic, "package init") && !p.isInterpreted(pkgPath) {
		info.skipInit = true
		info.class = 2
	}
	if info.intrinsic == nil && !info.skipInit && pkgPath != "" && !p.isInterpreted(pkgPath) {
		name := info.name
		res := fn.Signature.Results()
		info.class = 2
		info.intrinsic = func(fr *frame, args []value) value {
			if fr.i.px.inInit {
				if res.Len() == 0 {
					return nil
				}
				return zero(res)
			}
			fr.i.px.abort(stUnsupported, "call into non-interpreted package without a model: %s", name)
			return nil
		}
	}
	p.mu.Lock()
	p.infos[fn] = info
	p.mu.Unlock()
	return info
}

// readOverlayDir maps every *.go file in dir to virtual path <target>/zz_verif_<name>.
func readOverlayDir(dir, target string, overlay map[string][]byte) error {
	ents, err := os.ReadDir(dir)
	if err != nil {
		return err
	}
	for _, e := range ents {
		if e.IsDir() || !strings.HasSuffix(e.Name(), ".go") {
			continue
		}
		b, err := os.ReadFile(filepath.Join(dir, e.Name()))
		if err != nil {
			return err
		}
		overlay[filepath.Join(target, "zz_verif_"+e.Name())] = b
	}
	return nil
}

// isRepoPkg reports whether fn belongs to the repository under test (never tolerated).
func (p *Program) isRepoPkg(fn *ssa.Function) bool {
	return fn.Pkg != nil && strings.HasPrefix(fn.Pkg.Pkg.Path(), "github.com/tokenized/bitcoin_reader")
}

// slotsOf numbers every SSA value of fn (parameters, free variables, locals, value instructions).
func (info *fnInfo) slotsOf(fn *ssa.Function) map[ssa.Value]int {
	info.slotOnce.Do(func() {
		m := map[ssa.Value]int{}
		add := func(v ssa.Value) {
			if _, ok := m[v]; !ok {
				m[v] = len(m)
			}
		}
		for _, p := range fn.Params {
			add(p)
		}
		for _, f := range fn.FreeVars {
			add(f)
		}
		for _, l := range fn.Locals {
			add(l)
		}
		for _, b := range fn.Blocks {
			for _, in := range b.Instrs {
				if v, ok := in.(ssa.Value); ok {
					add(v)
				}
			}
		}
		if fn.Recover != nil {
			for _, in := range fn.Recover.Instrs {
				if v, ok := in.(ssa.Value); ok {
					add(v)
				}
			}
		}
		info.slots = m
	})
	return info.slots
}
