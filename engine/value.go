// Derived from golang.org/x/tools/go/ssa/interp (Copyright 2013 The Go Authors, BSD license,
// see LICENSE.x-tools); extended with symbolic scalars.

package main

// Values
//
// All interpreter values are "boxed" in the empty interface, value.
// The range of possible dynamic types within value are:
//
// - bool, numbers (all built-in int/float types are distinguished), string
// - sym        --- a symbolic bool or integer (SMT term + Go basic kind)
// - symstring  --- a string with concrete length and possibly symbolic bytes
// - *omap      --- maps (insertion ordered; symbolic-key aware)
// - *channel   --- channels (engine scheduler objects)
// - []value    --- slices
// - iface      --- interfaces
// - structure  --- structs
// - array      --- arrays
// - *value     --- pointers
// - *ssa.Function, *ssa.Builtin, *closure --- functions
// - tuple, iter, bad
// - *bigVal    --- payload stored in the "abs" field of a math/big.Int structure

import (
	"bytes"
	"fmt"
	"go/types"
	"unsafe"

	"golang.org/x/tools/go/ssa"
)

type value interface{}

type tuple []value

type array []value

type iface struct {
	t types.Type // never an "untyped" type
	v value
}

type structure []value

type iter interface {
	// next returns a Tuple (ok, key, value).
	next() tuple
}

type closure struct {
	Fn  *ssa.Function
	Env []value
}

type bad struct{}

// sym is a symbolic scalar: bool or integer of basic kind k.
type sym struct {
	k types.BasicKind
	t *Term
}

// symstring is an immutable string whose bytes may be symbolic (uint8 or sym{Uint8}).
type symstring struct {
	b []value
}

func kindWidth(k types.BasicKind) int {
	switch k {
	case types.Bool, types.UntypedBool:
		return 1
	case types.Int8, types.Uint8:
		return 8
	case types.Int16, types.Uint16:
		return 16
	case types.Int32, types.Uint32, types.UntypedRune:
		return 32
	case types.Int, types.Uint, types.Int64, types.Uint64, types.Uintptr, types.UntypedInt:
		return 64
	}
	panic(fmt.Sprintf("kindWidth: not an integer kind %v", k))
}

func kindSigned(k types.BasicKind) bool {
	switch k {
	case types.Int, types.Int8, types.Int16, types.Int32, types.Int64, types.UntypedInt, types.UntypedRune:
		return true
	}
	return false
}

func isIntKind(k types.BasicKind) bool {
	switch k {
	case types.Int, types.Int8, types.Int16, types.Int32, types.Int64,
		types.Uint, types.Uint8, types.Uint16, types.Uint32, types.Uint64, types.Uintptr,
		types.UntypedInt, types.UntypedRune:
		return true
	}
	return false
}

// intBits returns the basic kind and (sign-extended) bits of a concrete integer value.
func intBits(x value) (types.BasicKind, uint64, bool) {
	switch x := x.(type) {
	case int:
		return types.Int, uint64(x), true
	case int8:
		return types.Int8, uint64(x), true
	case int16:
		return types.Int16, uint64(x), true
	case int32:
		return types.Int32, uint64(x), true
	case int64:
		return types.Int64, uint64(x), true
	case uint:
		return types.Uint, uint64(x), true
	case uint8:
		return types.Uint8, uint64(x), true
	case uint16:
		return types.Uint16, uint64(x), true
	case uint32:
		return types.Uint32, uint64(x), true
	case uint64:
		return types.Uint64, x, true
	case uintptr:
		return types.Uintptr, uint64(x), true
	}
	return 0, 0, false
}

// mkInt builds a concrete integer of kind k from bits (truncating).
func mkInt(k types.BasicKind, b uint64) value {
	switch k {
	case types.Int, types.UntypedInt:
		return int(b)
	case types.Int8:
		return int8(b)
	case types.Int16:
		return int16(b)
	case types.Int32, types.UntypedRune:
		return int32(b)
	case types.Int64:
		return int64(b)
	case types.Uint:
		return uint(b)
	case types.Uint8:
		return uint8(b)
	case types.Uint16:
		return uint16(b)
	case types.Uint32:
		return uint32(b)
	case types.Uint64:
		return b
	case types.Uintptr:
		return uintptr(b)
	}
	panic(fmt.Sprintf("mkInt: bad kind %v", k))
}

func basicKindOf(t types.Type) (types.BasicKind, bool) {
	if b, ok := t.Underlying().(*types.Basic); ok {
		return b.Kind(), true
	}
	return 0, false
}

// nil-tolerant variant of types.Identical.
func sameType(x, y types.Type) bool {
	if x == nil {
		return y == nil
	}
	return y != nil && types.Identical(x, y)
}

func mustDeref(t types.Type) types.Type {
	if p, ok := t.Underlying().(*types.Pointer); ok {
		return p.Elem()
	}
	panic(fmt.Sprintf("mustDeref: not a pointer: %v", t))
}

// load returns the value of type T in *addr (copying aggregates).
func load(T types.Type, addr *value) value {
	switch T := T.Underlying().(type) {
	case *types.Struct:
		v := (*addr).(structure)
		a := make(structure, len(v))
		for i := range a {
			a[i] = load(T.Field(i).Type(), &v[i])
		}
		return a
	case *types.Array:
		v := (*addr).(array)
		a := make(array, len(v))
		for i := range a {
			a[i] = load(T.Elem(), &v[i])
		}
		return a
	default:
		return *addr
	}
}

// store stores value v of type T into *addr.
func store(T types.Type, addr *value, v value) {
	switch T := T.Underlying().(type) {
	case *types.Struct:
		lhs := (*addr).(structure)
		rhs := v.(structure)
		for i := range lhs {
			store(T.Field(i).Type(), &lhs[i], rhs[i])
		}
	case *types.Array:
		lhs := (*addr).(array)
		rhs := v.(array)
		for i := range lhs {
			store(T.Elem(), &lhs[i], rhs[i])
		}
	default:
		*addr = v
	}
}

// copyVal returns a deep copy of aggregates (structs, arrays); other values are returned as is.
func copyVal(v value) value {
	switch v := v.(type) {
	case structure:
		a := make(structure, len(v))
		for i := range v {
			a[i] = copyVal(v[i])
		}
		return a
	case array:
		a := make(array, len(v))
		for i := range v {
			a[i] = copyVal(v[i])
		}
		return a
	}
	return v
}

func writeValue(buf *bytes.Buffer, v value) {
	switch v := v.(type) {
	case nil, bool, int, int8, int16, int32, int64, uint, uint8, uint16, uint32, uint64, uintptr, float32, float64, complex64, complex128, string:
		fmt.Fprintf(buf, "%v", v)
	case sym:
		fmt.Fprintf(buf, "<sym %s>", v.t.String())
	case symstring:
		buf.WriteString("<symstring>")
	case *omap:
		buf.WriteString("map[")
		if v != nil {
			for i, e := range v.live() {
				if i > 0 {
					buf.WriteString(" ")
				}
				writeValue(buf, e.key)
				buf.WriteString(":")
				writeValue(buf, e.val)
			}
		}
		buf.WriteString("]")
	case *channel:
		fmt.Fprintf(buf, "%p", v)
	case *value:
		if v == nil {
			buf.WriteString("<nil>")
		} else {
			fmt.Fprintf(buf, "%p", v)
		}
	case iface:
		fmt.Fprintf(buf, "(%s, ", v.t)
		writeValue(buf, v.v)
		buf.WriteString(")")
	case structure:
		buf.WriteString("{")
		for i, e := range v {
			if i > 0 {
				buf.WriteString(" ")
			}
			writeValue(buf, e)
		}
		buf.WriteString("}")
	case array:
		buf.WriteString("[")
		for i, e := range v {
			if i > 0 {
				buf.WriteString(" ")
			}
			writeValue(buf, e)
		}
		buf.WriteString("]")
	case []value:
		buf.WriteString("[")
		for i, e := range v {
			if i > 0 {
				buf.WriteString(" ")
			}
			writeValue(buf, e)
		}
		buf.WriteString("]")
	case *ssa.Function, *ssa.Builtin, *closure:
		fmt.Fprintf(buf, "%p", v)
	case tuple:
		buf.WriteString("(")
		for i, e := range v {
			if i > 0 {
				buf.WriteString(", ")
			}
			writeValue(buf, e)
		}
		buf.WriteString(")")
	default:
		fmt.Fprintf(buf, "<%T>", v)
	}
}

func toString(v value) string {
	var b bytes.Buffer
	writeValue(&b, v)
	return b.String()
}

var _ = unsafe.Pointer(nil)
