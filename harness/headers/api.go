package headers

// Harness API. The symbolic engine (symgo) intercepts these functions by name; the bodies below are
// the native implementations used when a counterexample or a sampled path is replayed against the
// natively compiled code (go test -overlay).

import (
	"time"
	"encoding/hex"
	"encoding/json"
	"fmt"
	"os"
	"runtime"
	"strconv"
	"strings"
)

type verifNondet struct {
	Name string `json:"name"`
	Kind string `json:"kind"`
	Val  string `json:"val"`
}

type verifCase struct {
	Harness string           `json:"harness"`
	Nondets []verifNondet    `json:"nondets"`
	Params  map[string]int64 `json:"params"`
}

type verifStop struct{ why string }

var verifState struct {
	c         *verifCase
	pos       int
	fails     []string
	underflow bool
}

var verifHarnesses = map[string]func(){}

func verifNext(kind, name string) string {
	s := &verifState
	if s.c == nil || s.pos >= len(s.c.Nondets) {
		s.underflow = true
		if kind == "bytes" {
			return ""
		}
		return "0"
	}
	n := s.c.Nondets[s.pos]
	s.pos++
	if n.Kind != kind {
		s.underflow = true
	}
	return n.Val
}

func verifU(kind, name string) uint64 {
	v, _ := strconv.ParseUint(verifNext(kind, name), 10, 64)
	return v
}

func nondetU8(name string) uint8   { return uint8(verifU("u8", name)) }
func nondetU16(name string) uint16 { return uint16(verifU("u16", name)) }
func nondetU32(name string) uint32 { return uint32(verifU("u32", name)) }
func nondetU64(name string) uint64 { return verifU("u64", name) }
func nondetInt(name string) int    { return int(verifU("int", name)) }
func nondetBool(name string) bool  { return verifU("bool", name) != 0 }
func nondetBytes(name string, n int) []byte {
	b, _ := hex.DecodeString(verifNext("bytes", name))
	out := make([]byte, n)
	copy(out, b)
	return out
}

func verifAssume(c bool) {
	if !c {
		panic(verifStop{"assume"})
	}
}

func verifAssert(c bool, label string) {
	if !c {
		verifState.fails = append(verifState.fails, label)
		fmt.Printf("VERIF-ASSERT-FAIL %s\n", label)
	}
}

func verifReach(label string) {}

func verifObserve(format string, args ...interface{}) {
	parts := make([]string, len(args))
	for i, a := range args {
		parts[i] = fmt.Sprint(a)
	}
	fmt.Printf("VERIF-OBS %s %s\n", format, strings.Join(parts, " "))
}

func verifInEngine() bool { return false }

func verifParam(name string, def int) int {
	if verifState.c != nil {
		if v, ok := verifState.c.Params[name]; ok {
			return int(v)
		}
	}
	return def
}

var verifAlloc struct {
	budget uint64
	base   uint64
	on     bool
}

// verifSetAllocBudget starts metering allocations: natively the Go heap's TotalAlloc is sampled.
func verifSetAllocBudget(n int) {
	var m runtime.MemStats
	runtime.ReadMemStats(&m)
	verifAlloc.budget, verifAlloc.base, verifAlloc.on = uint64(n), m.TotalAlloc, true
}

// verifAllocDone reports an untrusted allocation when far more than budget bytes (plus slack for
// bookkeeping) were allocated since verifSetAllocBudget.
func verifAllocDone() {
	if !verifAlloc.on {
		return
	}
	verifAlloc.on = false
	var m runtime.MemStats
	runtime.ReadMemStats(&m)
	if m.TotalAlloc-verifAlloc.base > 64*verifAlloc.budget+(1<<20) {
		verifState.fails = append(verifState.fails, "untrusted-alloc")
		fmt.Printf("VERIF-ASSERT-FAIL untrusted-alloc\n")
	}
}

// verifQuiesce / verifAdvanceClock / verifBlockedInfo only have meaning under the engine's scheduler.
func verifQuiesce() int         { return 0 }

// verifSettle lets the other goroutines run until they block, without letting timers fire; natively
// a short sleep stands in for it.
func verifSettle() int { time.Sleep(30 * time.Millisecond); return 0 }
func verifAdvanceClock(d int64) { time.Sleep(time.Duration(d)) }
// verifClock returns the clock in nanoseconds (virtual under the engine).
func verifClock() int64 { return time.Now().UnixNano() }
func verifBlockedInfo() string  { return "" }

func verifRunCase(k int, c *verifCase) (failed bool) {
	verifState.c = c
	verifState.pos = 0
	verifState.fails = nil
	verifState.underflow = false
	fmt.Printf("VERIF-CASE-BEGIN %d %s\n", k, c.Harness)
	status := "ok"
	func() {
		defer func() {
			if r := recover(); r != nil {
				if st, ok := r.(verifStop); ok {
					status = "assumed-away:" + st.why
					return
				}
				status = "panic"
				fmt.Printf("VERIF-PANIC %v\n", strings.ReplaceAll(fmt.Sprint(r), "\n", " "))
			}
		}()
		h := verifHarnesses[c.Harness]
		if h == nil {
			panic("unknown harness " + c.Harness)
		}
		h()
	}()
	if status == "ok" && len(verifState.fails) > 0 {
		status = "assert-fail"
	}
	if verifState.underflow {
		fmt.Printf("VERIF-NOTE nondet sequence diverged\n")
	}
	fmt.Printf("VERIF-CASE-END %d %s\n", k, status)
	return status != "ok" && !strings.HasPrefix(status, "assumed-away")
}

func verifRunCases(path string) int {
	b, err := os.ReadFile(path)
	if err != nil {
		fmt.Println("VERIF-ERROR cannot read", path, err)
		return 1
	}
	var cases []verifCase
	if err := json.Unmarshal(b, &cases); err != nil {
		fmt.Println("VERIF-ERROR bad case file", err)
		return 1
	}
	n := 0
	for k := range cases {
		if verifRunCase(k, &cases[k]) {
			n++
		}
	}
	return n
}
