package headers

import (
	"github.com/tokenized/pkg/bitcoin"
)

func init() {
	verifHarnesses["VerifC02BitsNoPanic"] = VerifC02BitsNoPanic
}

// VerifC02BitsNoPanic: for every 32-bit bits value, the proof-of-work helpers used by
// ProcessHeader / NewBranch / Branch.Add return instead of crashing the process.
func VerifC02BitsNoPanic() {
	bits := nondetU32("bits")
	d := bitcoin.ConvertToDifficulty(bits)
	_ = bitcoin.ConvertToWork(d)
	verifReach("done")
}
