package headers

import (
	"math/big"

	"github.com/pkg/errors"
	"github.com/tokenized/pkg/bitcoin"
	"github.com/tokenized/pkg/wire"
)

func init() {
	verifHarnesses["VerifC02ProcessNoPanic"] = VerifC02ProcessNoPanic
	verifHarnesses["VerifC02HashCheck"] = VerifC02HashCheck
	verifHarnesses["VerifC02Median"] = VerifC02Median
	verifHarnesses["VerifC02TimeSpan"] = VerifC02TimeSpan
	verifHarnesses["VerifC02BitsRule"] = VerifC02BitsRule
}

func genesisRepo(difficulty bool) *Repository {
	cfg := &Config{Network: bitcoin.MainNet, MaxBranchDepth: 144}
	repo := NewRepository(cfg, newVerifStore())
	if !difficulty {
		repo.DisableDifficulty()
	}
	repo.InitializeWithGenesis()
	return repo
}

// VerifC02ProcessNoPanic: whatever 80 bytes are submitted (difficulty checks on as in production,
// or off), ProcessHeader returns (accept or error) - it never panics.
func VerifC02ProcessNoPanic() {
	repo := genesisRepo(nondetBool("difficulty-checks-on"))
	x := symHeader80("header")
	if nondetBool("child-of-genesis") {
		x.PrevBlock = repo.genesisHash
	}
	err := repo.ProcessHeader(context_bg(), x)
	_ = err
	verifReach("done")
}

func symHeader80(prefix string) *wire.BlockHeader {
	hd := symHeader(prefix)
	hd.Bits = nondetU32(prefix + "-bits")
	return hd
}

// refCompact decodes bits the way the network does (arith_uint256::SetCompact): 23-bit mantissa,
// sign bit, exponent in bytes. ok=false: negative, zero or overflowing target (never valid).
func refCompact(bits uint32) (*big.Int, bool) {
	size := bits >> 24
	word := bits & 0x007fffff
	if word == 0 {
		return nil, false
	}
	if bits&0x00800000 != 0 {
		return nil, false
	}
	if size > 34 || (word > 0xff && size > 33) || (word > 0xffff && size > 32) {
		return nil, false
	}
	t := new(big.Int).SetUint64(uint64(word))
	if size <= 3 {
		t.Rsh(t, uint(8*(3-size)))
	} else {
		t.Lsh(t, uint(8*(size-3)))
	}
	if t.Sign() == 0 {
		return nil, false
	}
	return t, true
}

// VerifC02HashCheck: a header is added only if its hash value does not exceed the target its
// bits field encodes (network decoding); encodings the network treats as invalid are never added.
func VerifC02HashCheck() {
	repo := genesisRepo(true)
	x := symHeader80("header")
	x.PrevBlock = repo.genesisHash
	hash := *x.BlockHash()
	verifAssume(repo.HashHeight(hash) == -1) // a new header (SHA-256d collision-free)
	err := repo.ProcessHeader(context_bg(), x)
	added := repo.HashHeight(hash) == 1
	if err == nil {
		verifAssert(added, "accepted-header-not-added")
	}
	if added {
		verifReach("added")
		target, ok := refCompact(x.Bits)
		if !ok {
			if x.Bits&0x00800000 != 0 {
				verifAssert(false, "header-with-negative-target-encoding-added")
			} else {
				verifAssert(false, "header-with-invalid-target-encoding-added")
			}
		} else {
			verifAssert(hash.Value().Cmp(target) <= 0, "header-added-with-hash-above-target")
		}
	} else {
		verifReach("refused")
		c := errors.Cause(err)
		verifAssert(c == ErrNotEnoughWork || c == ErrInvalidTarget, "refusal-not-bad-work-or-bits")
	}
	verifReach("done")
}

// synthBranch builds a branch of n headers ending at height top whose (time, work) samples are
// given by the caller for the six positions the difficulty algorithm reads; all other entries are
// never read by Target.
func synthBranch(top int, times [6]uint32, works [6]*big.Int, bits uint32) *Branch {
	n := 150
	b := &Branch{parentHeight: top - n, offset: 1, heightsMap: map[bitcoin.Hash32]int{}}
	filler := &HeaderData{Header: &wire.BlockHeader{Bits: bits}, AccumulatedWork: big.NewInt(1)}
	b.headers = make([]*HeaderData, n)
	for i := range b.headers {
		b.headers[i] = filler
	}
	// positions: top-146, top-145, top-144 (first window) and top-2, top-1, top (last window)
	pos := [6]int{n - 147, n - 146, n - 145, n - 3, n - 2, n - 1}
	for k, p := range pos {
		b.headers[p] = &HeaderData{Header: &wire.BlockHeader{Timestamp: times[k], Bits: bits}, AccumulatedWork: works[k]}
	}
	b.firstHeader = b.headers[0].Header
	return b
}

// refSuitable is the network's GetSuitableBlock: three conditional swaps on strict >.
func refSuitable(t [3]uint32) int {
	idx := [3]int{0, 1, 2}
	if t[idx[0]] > t[idx[2]] {
		idx[0], idx[2] = idx[2], idx[0]
	}
	if t[idx[0]] > t[idx[1]] {
		idx[0], idx[1] = idx[1], idx[0]
	}
	if t[idx[1]] > t[idx[2]] {
		idx[1], idx[2] = idx[2], idx[1]
	}
	return idx[1]
}

// VerifC02Median: the median-of-three endpoint is the block the network selects, for all
// timestamp triples including ties and decreasing ones.
func VerifC02Median() {
	var times [6]uint32
	var works [6]*big.Int
	for k := 0; k < 6; k++ {
		times[k] = uint32(k)
		works[k] = big.NewInt(int64(1000 + k))
	}
	t := [3]uint32{nondetU32("t0"), nondetU32("t1"), nondetU32("t2")}
	times[3], times[4], times[5] = t[0], t[1], t[2]
	top := 600000
	b := synthBranch(top, times, works, 0x1d00ffff)
	gotTime, gotWork, err := b.MedianTimeAndWork(context_bg(), top, 3)
	if err != nil {
		verifAssert(false, "median-returns-error")
		return
	}
	want := refSuitable(t)
	verifAssert(gotTime == t[want], "median-time-differs-from-network-selection")
	verifAssert(gotWork.Cmp(works[3+want]) == 0, "median-block-differs-from-network-selection")
	verifReach("done")
}

// VerifC02TimeSpan: the target is computed from the signed time span between the two median
// endpoints clamped to [72,288] blocks' worth, as the network does, for every pair of timestamps.
func VerifC02TimeSpan() {
	var times [6]uint32
	var works [6]*big.Int
	first := nondetU32("first")
	last := nondetU32("last")
	// equal timestamps inside each window make the medians independent of the selection rule
	times = [6]uint32{first, first, first, last, last, last}
	w0 := new(big.Int).Lsh(big.NewInt(1), 70)
	dw := new(big.Int).Lsh(big.NewInt(12345678901), 40)
	for k := 0; k < 3; k++ {
		works[k] = w0
		works[3+k] = new(big.Int).Add(w0, dw)
	}
	top := 600000
	b := synthBranch(top, times, works, 0x1d00ffff)
	got, err := b.Target(context_bg(), top+1)
	if err != nil {
		verifAssert(false, "target-returns-error")
		return
	}
	span := int64(last) - int64(first)
	if span < 72*600 {
		span = 72 * 600
	}
	if span > 288*600 {
		span = 288 * 600
	}
	proj := new(big.Int).Mul(dw, big.NewInt(600))
	proj.Div(proj, big.NewInt(span))
	want := bitcoin.ConvertToWork(proj)
	if want.Cmp(bitcoin.MaxWork) > 0 {
		want.Set(bitcoin.MaxWork)
	}
	verifAssert(got.Cmp(want) == 0, "target-not-computed-from-signed-clamped-time-span")
	verifReach("done")
}

// VerifC02BitsRule: from the activation height on, a header is accepted only with the bits value
// the difficulty algorithm requires for its position on its own branch (main chain or fork).
func VerifC02BitsRule() {
	cfg := &Config{Network: bitcoin.MainNet, MaxBranchDepth: 144}
	repo := NewRepository(cfg, newVerifStore())
	var times [6]uint32
	var works [6]*big.Int
	w0 := new(big.Int).Lsh(big.NewInt(1), 70)
	dw := new(big.Int).Lsh(big.NewInt(12345678901), 40)
	for k := 0; k < 3; k++ {
		times[k] = 1600000000
		times[3+k] = 1600000000 + 144*600
		works[k] = w0
		works[3+k] = new(big.Int).Add(w0, dw)
	}
	top := 600000
	b := synthBranch(top, times, works, 0x1803a30c)
	var tipHash bitcoin.Hash32
	tipHash[0], tipHash[1] = 0x99, 0x01
	tipData := *b.headers[len(b.headers)-1]
	tipData.Hash = tipHash
	b.headers[len(b.headers)-1] = &tipData
	b.heightsMap[tipHash] = top
	repo.branches = Branches{b}
	repo.longest = b
	onFork := nondetBool("on-fork")
	parent := tipHash
	if onFork {
		// a fork one below the tip: its first header has the same position (height top)
		var below bitcoin.Hash32
		below[0], below[1] = 0x99, 0x02
		d := *b.headers[len(b.headers)-2]
		d.Hash = below
		b.headers[len(b.headers)-2] = &d
		b.heightsMap[below] = top - 1
		parent = below
	}
	required, err := b.Target(context_bg(), top+1)
	if err != nil {
		verifAssert(false, "target-returns-error")
		return
	}
	_ = required
	x := symHeader80("header")
	x.PrevBlock = parent
	hash := *x.BlockHash()
	verifAssume(repo.HashHeight(hash) == -1) // a new header (SHA-256d collision-free)
	perr := repo.ProcessHeader(context_bg(), x)
	added := repo.HashHeight(hash) != -1
	// creating a fork (or refusing a header) must not change the work recorded for existing headers:
	// the required target for the next main-chain position stays what it was
	again, err2 := b.Target(context_bg(), top+1)
	verifAssert(err2 == nil && again.Cmp(required) == 0, "submission-changed-the-required-target-of-existing-chain")
	if added {
		verifReach("added")
		height := top + 1
		var want *big.Int
		if onFork {
			height = top
			// position top on the fork: windows end at top-1 and top-145; outside this harness's six
			// symbolic samples, so only the main-chain position is compared exactly
			want = nil
		} else {
			want = required
		}
		_ = height
		if want != nil {
			verifAssert(x.Bits == bitcoin.ConvertToBits(want, bitcoin.MaxBits), "header-accepted-with-bits-other-than-required")
		}
	} else {
		verifReach("refused")
		verifAssert(perr != nil, "not-added-but-no-error")
	}
	verifReach("done")
}
