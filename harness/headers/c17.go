package headers

import (
	"fmt"

	"github.com/tokenized/pkg/bitcoin"
)

func init() {
	verifHarnesses["VerifC17Invalid"] = VerifC17Invalid
}

// VerifC17Invalid: a header marked invalid and everything built on it is excluded from the best
// chain until unmarked; marks survive Save/Load; marking an unseen hash pre-empts it.
func VerifC17Invalid() {
	steps := verifParam("steps", 4)
	ops := verifParam("ops", 4)
	h := newHist(1000)
	var unseen bitcoin.Hash32 // an invalid mark for a hash nobody submitted
	unseen[0], unseen[1] = 0xcc, 0x01
	unseenMarked := false
	accepted := []bool{true}
	for n := h.setupState(); n > 0; n-- {
		accepted = append(accepted, true)
	}
	for s := 0; s < steps; s++ {
		op := pick(fmt.Sprintf("op%d", s), ops)
		switch op {
		case 0: // fresh submission
			hd, p := h.newHeader()
			i := h.record(hd, p)
			err := h.repo.ProcessHeader(h.ctx, hd)
			accepted = append(accepted, err == nil)
			if p >= 0 && h.excluded(p) && err == nil {
				verifReach("child-of-excluded-accepted")
			}
			_ = i
		case 1: // mark a known header (not genesis) or the unseen hash
			n := len(h.hdr)
			sel := 1 + pick(fmt.Sprintf("mark%d", s), n)
			if sel == n {
				err := h.repo.MarkHeaderInvalid(h.ctx, unseen)
				verifAssert(err == nil, "marking-unseen-hash-returns-error")
				unseenMarked = true
				verifReach("marked-unseen")
			} else {
				err := h.repo.MarkHeaderInvalid(h.ctx, h.hash[sel])
				verifAssert(err == nil, "marking-returns-error")
				h.marked[sel] = true
				// the marked header and everything built on it is dropped; a descendant is only
				// known again if it is submitted again after an unmark
				for j := range h.hdr {
					if h.isAncestor(sel, j) {
						accepted[j] = false
					}
				}
				verifReach("marked-known")
			}
		case 2: // re-submit a marked header: must be refused as marked invalid
			for i := 1; i < len(h.hdr); i++ {
				if h.marked[i] {
					got := errClass(h.repo.ProcessHeader(h.ctx, h.hdr[i]))
					if h.parent[i] >= 0 && h.known(h.parent[i]) {
						verifAssert(got == "marked-invalid", "marked-header-not-refused:got-"+got)
					}
					verifReach("resubmitted-marked")
					break
				}
			}
		case 3: // save + load
			if err := h.saveLoad(); err != nil {
				verifAssert(false, "save-load-returns-error")
				return
			}
			verifReach("reloaded")
			// marks survive
			for _, x := range h.repo.invalidHashes {
				_ = x
			}
			for i := range h.hdr {
				if h.marked[i] {
					found := false
					for _, x := range h.repo.invalidHashes {
						if x.Equal(&h.hash[i]) {
							found = true
						}
					}
					verifAssert(found, "mark-lost-by-save-load")
				}
			}
			if unseenMarked {
				found := false
				for _, x := range h.repo.invalidHashes {
					if x.Equal(&unseen) {
						found = true
					}
				}
				verifAssert(found, "mark-lost-by-save-load")
			}
		case 4: // unmark
			for i := 1; i < len(h.hdr); i++ {
				if h.marked[i] {
					err := h.repo.MarkHeaderNotInvalid(h.ctx, h.hash[i])
					verifAssert(err == nil, "unmarking-returns-error")
					h.marked[i] = false
					got := errClass(h.repo.ProcessHeader(h.ctx, h.hdr[i]))
					if h.parent[i] >= 0 && h.known(h.parent[i]) && !h.excluded(h.parent[i]) {
						verifAssert(got == "ok", "unmarked-header-not-acceptable:got-"+got)
					}
					if got == "ok" {
						accepted[i] = true
					}
					verifReach("unmarked")
					break
				}
			}
		}
		// oracle: the tip is the heaviest accepted header with no marked ancestor-or-self
		best := -1
		for i := range h.hdr {
			if !accepted[i] || !h.linked[i] || h.excluded(i) {
				continue
			}
			if best == -1 || h.cum[i].Cmp(h.cum[best]) > 0 {
				best = i
			}
		}
		tip := h.indexOfHash(h.repo.LastHash())
		verifObserve("step", s, op, tip, best)
		if tip < 0 || best < 0 {
			verifAssert(false, "tip-unknown")
			continue
		}
		verifAssert(!h.excluded(tip), "best-chain-contains-marked-header")
		if !h.excluded(tip) {
			verifAssert(h.cum[tip].Cmp(h.cum[best]) == 0, "tip-not-heaviest-unmarked-chain")
		}
		for i := range h.hdr {
			if accepted[i] && h.excluded(i) {
				_, longest, err := h.repo.CheckHeader(h.ctx, h.hash[i])
				if err == nil {
					verifAssert(!longest, "marked-or-descendant-reported-in-most-work-chain")
				}
			}
		}
	}
	verifReach("done")
}
