package headers

import (
	"bytes"
	"fmt"

	"github.com/tokenized/pkg/wire"
)

func init() {
	verifHarnesses["VerifC10Clean"] = VerifC10Clean
	verifHarnesses["VerifC11SaveLoad"] = VerifC11SaveLoad
}

// assumeNoTie restricts the history to headers with pairwise different cumulative work: which of
// two equally heavy tips is reported is not fixed by the properties (it depends on branch order,
// which Clean and Load legitimately change), so twin comparisons are made on tie-free histories.
func (h *vHist) assumeNoTie(i int) {
	if !h.linked[i] {
		return
	}
	for j := range h.hdr {
		if j != i && h.linked[j] {
			verifAssume(h.cum[i].Cmp(h.cum[j]) != 0)
		}
	}
}

// twin builds a second repository that receives the same submissions.
type vTwin struct {
	repo  *Repository
	store *verifStore
}

func (h *vHist) newTwin() *vTwin {
	t := &vTwin{store: newVerifStore()}
	t.repo = NewRepository(h.cfg, t.store)
	t.repo.DisableDifficulty()
	t.repo.InitializeWithGenesis()
	return t
}

// observeBest renders what must survive pruning: the tip, every height of the best chain and
// the status of best-chain headers and of side-branch headers above the retained depth.
func (h *vHist) observeBest(r *Repository, prune int) string {
	if prune == 0 {
		return h.observeRepo(r)
	}
	tip := h.indexOfHash(r.LastHash())
	out := fmt.Sprintf("H%d T%d W%s|", r.Height(), tip, r.AccumulatedWork().Text(16))
	n := r.Height()
	for ht := 0; ht <= n; ht++ {
		hash, err := r.Hash(h.ctx, ht)
		if err != nil || hash == nil {
			out += fmt.Sprintf("h%d:ERR ", ht)
			continue
		}
		hd, err := r.Header(h.ctx, ht)
		ok := err == nil && hd != nil && hd.BlockHash().Equal(hash)
		out += fmt.Sprintf("h%d:%d:%t ", ht, h.indexOfHash(*hash), ok)
	}
	out += "|"
	for i := range h.hash {
		if tip < 0 || !h.linked[i] {
			continue
		}
		if !h.isAncestor(i, tip) && h.height[i] <= n-prune {
			continue
		}
		ht := r.HashHeight(h.hash[i])
		ch, longest, cerr := r.CheckHeader(h.ctx, h.hash[i])
		out += fmt.Sprintf("%d:%d/%d,%t,%t ", i, ht, ch, longest, cerr == nil)
	}
	return out
}

// VerifC10Clean: Clean at any point, any number of times, never changes what the repository
// reports, and afterwards submissions are treated exactly as by a repository that was never cleaned.
func VerifC10Clean() {
	steps := verifParam("steps", 4)
	prune := verifParam("prune", 0)
	h := newHist(1000)
	t := h.newTwin()
	if h.setupState() > 0 {
		for _, hd := range h.hdr[1:] {
			t.repo.ProcessHeader(h.ctx, hd)
		}
	}
	// every header of the constructed state was accepted; Clean alone never makes a header
	// unknown, so all of them stay individually retrievable with their true height and status
	acc := make([]bool, len(h.hdr))
	for i := range acc {
		acc[i] = true
	}
	all := func(int) bool { return true }
	if len(h.hdr) > 1 {
		h.checkLookups("constructed:", acc, all) // the construction ends with a Clean
	}
	for s := 0; s < steps; s++ {
		op := pick(fmt.Sprintf("op%d", s), 2)
		switch op {
		case 0:
			hd, p := h.newHeader()
			h.assumeNoTie(h.record(hd, p))
			e1 := h.repo.ProcessHeader(h.ctx, hd)
			e2 := t.repo.ProcessHeader(h.ctx, hd)
			acc = append(acc, e1 == nil)
			verifAssert(errClass(e1) == errClass(e2), "verdict-differs-after-clean")
		case 1:
			// Clean itself must not change the status of any accepted header, however deep
			// tip, header at every height, height/status/retrievability of every accepted header;
			// PreviousHash may turn to "unknown" for headers Clean prunes from memory, but never
			// to another hash
			before := h.observeRepoOpt(h.repo, len(h.hash), false)
			var prevBefore []int
			for i := range h.hash {
				ph, _ := h.repo.PreviousHash(h.hash[i])
				pi := -1
				if ph != nil {
					pi = h.indexOfHash(*ph)
				}
				prevBefore = append(prevBefore, pi)
			}
			err := h.repo.Clean(h.ctx)
			verifAssert(err == nil, "clean-returns-error")
			verifAssert(h.observeRepoOpt(h.repo, len(h.hash), false) == before, "clean-changed-reported-state")
			for i := range h.hash {
				if ph, _ := h.repo.PreviousHash(h.hash[i]); ph != nil {
					verifAssert(h.indexOfHash(*ph) == prevBefore[i], "clean-changed-previous-hash")
				}
			}
			h.checkLookups("after-clean:", acc, all)
			verifReach("cleaned")
			if len(h.repo.branches) > 2 {
				verifReach("cleaned-with-3-branches")
			}
		}
		verifAssert(h.observeBest(h.repo, prune) == h.observeBest(t.repo, prune), "cleaned-and-uncleaned-repositories-diverge")
		verifObserve("step", s, op, h.repo.Height(), t.repo.Height())
		verifObserve("state", h.observeBest(h.repo, prune))
		verifObserve("twin", h.observeBest(t.repo, prune))
	}
	verifReach("done")
}

// VerifC11SaveLoad: a repository loaded from what Save wrote reports the same state and treats
// every later submission as the original would.
func VerifC11SaveLoad() {
	steps := verifParam("steps", 4)
	ops := verifParam("ops", 3)
	prune := verifParam("prune", 0)
	h := newHist(1000)
	t := h.newTwin() // never saved or loaded
	if h.setupState() > 0 {
		for _, hd := range h.hdr[1:] {
			t.repo.ProcessHeader(h.ctx, hd)
		}
	}
	acc := make([]bool, len(h.hdr))
	for i := range acc {
		acc[i] = true
	}
	// after a Load every best-chain header and every side-branch header within the retained depth
	// has its true height, status and header (absolute oracle, besides the comparisons)
	retained := func(i int) bool {
		return prune == 0 || h.height[i] > h.repo.Height()-prune
	}
	for s := 0; s < steps; s++ {
		op := pick(fmt.Sprintf("op%d", s), ops)
		switch op {
		case 0:
			hd, p := h.newHeader()
			h.assumeNoTie(h.record(hd, p))
			e1 := h.repo.ProcessHeader(h.ctx, hd)
			e2 := t.repo.ProcessHeader(h.ctx, hd)
			acc = append(acc, e1 == nil)
			verifAssert(errClass(e1) == errClass(e2), "verdict-differs-after-load")
		case 1:
			before := h.observeBest(h.repo, prune)
			verifAssume(h.scaledSaveIsFaithful())
			if err := h.repo.Save(h.ctx); err != nil {
				verifAssert(false, "save-returns-error")
				return
			}
			r := NewRepository(h.cfg, h.store)
			r.DisableDifficulty()
			if err := r.Load(h.ctx); err != nil {
				verifAssert(false, "load-returns-error")
				return
			}
			h.repo = r
			verifAssert(h.observeBest(h.repo, prune) == before, "loaded-repository-reports-different-state")
			h.checkLookups("after-load:", acc, retained)
			verifReach("reloaded")
		case 2:
			// both are cleaned so that the comparison stays about save/load
			h.repo.Clean(h.ctx)
			t.repo.Clean(h.ctx)
			verifReach("cleaned")
		}
		verifAssert(h.observeBest(h.repo, prune) == h.observeBest(t.repo, prune), "loaded-and-original-repositories-diverge")
		verifObserve("step", s, op, h.repo.Height(), t.repo.Height())
		verifObserve("state", h.observeBest(h.repo, prune))
	}
	verifReach("done")
}

func init() {
	verifHarnesses["VerifC11Resave"] = VerifC11Resave
}

// VerifC11Resave: a repository that was already saved changes (a heavier fork of any length,
// optionally an invalid mark, optionally Clean) and is saved again; what Load then restores is the
// current state, not a mixture with the files of the earlier Save.
func VerifC11Resave() {
	h := newHist(1000)
	if verifParam("rich", 1) == 2 {
		h.lateState()
	} else {
		h.richState()
	}
	if err := h.repo.Save(h.ctx); err != nil {
		verifAssert(false, "save-returns-error")
		return
	}
	steps := verifParam("steps", 2)
	for s := 0; s < steps; s++ {
		switch pick(fmt.Sprintf("op%d", s), 3) {
		case 0:
			// equally heavy tips are allowed here: the same repository is compared before Save
			// and after Load, and Load keeps the branch order that decides a tie
			hd, p := h.newHeader()
			h.record(hd, p)
			h.repo.ProcessHeader(h.ctx, hd)
		case 1:
			h.repo.Clean(h.ctx)
			verifReach("cleaned")
		case 2:
			sel := 1 + pick(fmt.Sprintf("mark%d", s), len(h.hdr)-1)
			h.repo.MarkHeaderInvalid(h.ctx, h.hash[sel])
			verifReach("marked")
		}
	}
	before := h.observeRepo(h.repo)
	if err := h.repo.Save(h.ctx); err != nil {
		verifAssert(false, "save-returns-error")
		return
	}
	r := NewRepository(h.cfg, h.store)
	r.DisableDifficulty()
	if err := r.Load(h.ctx); err != nil {
		verifAssert(false, "load-returns-error")
		return
	}
	verifObserve("state", before)
	verifAssert(h.observeRepo(r) == before, "loaded-repository-reports-different-state")
	verifReach("done")
}

func init() {
	verifHarnesses["VerifC11Migrate"] = VerifC11Migrate
}

// VerifC11Migrate: storage holding only legacy version-0 header files (80-byte headers, no work)
// is migrated by Load: the chain, heights and cumulative work are those of the stored headers, and
// a following Save/Load round trip restores the same repository.
func VerifC11Migrate() {
	perFile := verifParam("perfile", 2) // must equal the (scaled) headersPerFile constant
	n := 1 + pick("count", verifParam("maxcount", 5))
	h := newHist(1000)
	// legacy chain: genesis plus n-1 headers with table weights
	chain := []*wire.BlockHeader{h.hdr[0]}
	for i := 1; i < n; i++ {
		w := pick(fmt.Sprintf("weight%d", i), h.weights)
		hd := &wire.BlockHeader{Version: 1, Timestamp: uint32(1600000000 + i), Bits: verifBitsTable[w], Nonce: uint32(7000 + i)}
		hd.PrevBlock = *chain[i-1].BlockHash()
		chain = append(chain, hd)
		h.record(hd, i-1)
	}
	store := newVerifStore()
	for f := 0; f*perFile < n; f++ {
		var buf bytes.Buffer
		buf.WriteByte(0) // version 0
		for i := f * perFile; i < n && i < (f+1)*perFile; i++ {
			chain[i].Serialize(&buf)
		}
		store.data[headersFilePath(f)] = buf.Bytes()
	}
	r := NewRepository(h.cfg, store)
	r.DisableDifficulty()
	if err := r.Load(h.ctx); err != nil {
		verifAssert(false, "load-of-legacy-files-returns-error")
		return
	}
	verifObserve("migrated", n, r.Height())
	verifAssert(r.Height() == n-1, "migrated-height-wrong")
	verifAssert(r.AccumulatedWork().Cmp(h.cum[n-1]) == 0, "migrated-work-wrong")
	h.repo = r
	h.checkChain("migrated:", n-1)
	for i := 0; i < n; i++ {
		verifAssert(r.HashHeight(h.hash[i]) == i, "migrated-hash-height-wrong")
	}
	// the migrated repository survives a Save/Load round trip
	prune := verifParam("prune", 3)
	if verifParam("fullcompare", 0) == 1 {
		prune = 0 // debugging aid: compare everything, including what Load legitimately prunes
	}
	before := h.observeBest(r, prune)
	if err := r.Save(h.ctx); err != nil {
		verifAssert(false, "save-after-migration-returns-error")
		return
	}
	r2 := NewRepository(h.cfg, store)
	r2.DisableDifficulty()
	if err := r2.Load(h.ctx); err != nil {
		verifAssert(false, "load-after-migration-returns-error")
		return
	}
	after := h.observeBest(r2, prune) // Load prunes to the retained depth: compare what must survive
	if after != before {
		verifObserve("before", before)
		verifObserve("after", after)
	}
	verifAssert(after == before, "repository-differs-after-migration-round-trip")
	verifReach("done")
}
