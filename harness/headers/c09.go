package headers

import (
	"fmt"

	"github.com/pkg/errors"
	"github.com/tokenized/pkg/bitcoin"
)

func init() {
	verifHarnesses["VerifC09Lookups"] = VerifC09Lookups
}

// checkLookups asserts C09 for every header the repository accepted (acc) against the reference tree.
// retained(i) tells whether header i is expected to be still individually retrievable.
func (h *vHist) checkLookups(tag string, acc []bool, retained func(i int) bool) {
	tip := h.indexOfHash(h.repo.LastHash())
	if tip < 0 {
		verifAssert(false, tag+"tip-unknown")
		return
	}
	for i := range h.hdr {
		if !acc[i] {
			// a header that was refused (and never accepted) is unknown to every lookup
			_, _, cerr := h.repo.CheckHeader(h.ctx, h.hash[i])
			_, _, _, gerr := h.repo.GetHeader(h.ctx, h.hash[i])
			verifAssert(h.repo.HashHeight(h.hash[i]) == -1 && cerr != nil && gerr != nil, tag+"refused-header-known-to-lookups")
			continue
		}
		if !h.linked[i] {
			continue
		}
		onBest := h.isAncestor(i, tip)
		if !onBest && !retained(i) {
			continue
		}
		ht := h.repo.HashHeight(h.hash[i])
		if ht != h.height[i] {
			verifObserve("hash-height-wrong", i, ht, h.height[i], onBest, tip)
		}
		verifAssert(ht == h.height[i], tag+"hash-height-wrong")
		ch, longest, err := h.repo.CheckHeader(h.ctx, h.hash[i])
		verifAssert(err == nil, tag+"check-header-fails-for-accepted-header")
		if err == nil {
			verifAssert(ch == h.height[i], tag+"check-header-height-wrong")
			if onBest {
				verifAssert(longest, tag+"best-chain-header-reported-not-in-most-work-chain")
			} else {
				verifAssert(!longest, tag+"side-branch-header-reported-in-most-work-chain")
			}
		}
		hd, gh, glongest, gerr := h.repo.GetHeader(h.ctx, h.hash[i])
		if gerr == nil {
			verifAssert(hd != nil && hd.BlockHash().Equal(&h.hash[i]), tag+"get-header-returns-other-header")
			verifAssert(gh == h.height[i], tag+"get-header-height-wrong")
			verifAssert(glongest == onBest, tag+"get-header-longest-flag-wrong")
			if hd != nil && h.parent[i] >= 0 {
				verifAssert(hd.PrevBlock.Equal(&h.hash[h.parent[i]]), tag+"get-header-wrong-predecessor")
			}
		} else if onBest {
			verifAssert(false, tag+"best-chain-header-not-retrievable-by-hash")
		}
		ph, pht := h.repo.PreviousHash(h.hash[i])
		if ph != nil && h.parent[i] >= 0 {
			verifAssert(ph.Equal(&h.hash[h.parent[i]]) && pht == h.height[i]-1, tag+"previous-hash-wrong")
		}
		// a header the repository still holds in memory (a branch finds it) knows its predecessor,
		// also when the predecessor itself has been pruned from memory; for headers served from
		// header files only, "unknown" is accepted (reduced claim)
		if _, inMemory := h.repo.branches.Find(h.hash[i]); inMemory >= 0 && h.parent[i] >= 0 {
			verifAssert(ph != nil, tag+"previous-hash-unknown-for-header-in-memory")
		}
	}
	// unknown hash
	var unk bitcoin.Hash32
	unk[0], unk[1] = 0xdd, 0x01
	verifAssert(h.repo.HashHeight(unk) == -1, tag+"unknown-hash-has-height")
	_, _, err := h.repo.CheckHeader(h.ctx, unk)
	verifAssert(errors.Cause(err) == ErrUnknownHeader, tag+"unknown-hash-not-reported-unknown")
	// range queries agree with single-height queries
	n := h.repo.Height()
	for s := 0; s <= n; s++ {
		for m := 1; m <= 3; m++ {
			hs, err := h.repo.GetHeaders(h.ctx, s, m)
			if err != nil {
				if s+m-1 > n {
					// a range reaching past the tip: memory-only serving fails where storage serving truncates
					verifAssert(false, tag+"get-headers-range-past-tip-returns-error")
				} else {
					verifAssert(false, tag+"get-headers-error")
				}
				continue
			}
			want := m
			if s+m-1 > n {
				want = n - s + 1
			}
			verifAssert(len(hs) == want, tag+"get-headers-count-wrong")
			for k := 0; k < len(hs) && k < want; k++ {
				single, err := h.repo.Header(h.ctx, s+k)
				if err != nil || single == nil {
					verifAssert(false, tag+"header-at-height-unavailable")
					continue
				}
				verifAssert(hs[k].BlockHash().Equal(single.BlockHash()), tag+"get-headers-disagrees-with-header")
			}
		}
	}
}

// VerifC09Lookups: hash/height/best-chain lookups agree with the accepted tree after every step.
func VerifC09Lookups() {
	steps := verifParam("steps", 4)
	ops := verifParam("ops", 3)
	prune := verifParam("prune", 0) // scaled prune depth (0: unscaled, nothing is ever pruned)
	h := newHist(1000)
	acc := []bool{true}
	for k := h.setupState(); k > 0; k-- {
		acc = append(acc, true)
	}
	// the symbolic submissions may be refused for fork depth (the construction is not)
	h.cfg.MaxBranchDepth = verifParam("maxdepth", 1000)
	for s := 0; s < steps; s++ {
		op := pick(fmt.Sprintf("op%d", s), ops)
		switch op {
		case 0:
			_, err := h.submit()
			acc = append(acc, err == nil)
		case 1:
			if h.repo.Clean(h.ctx) != nil {
				return // C10's subject
			}
			verifReach("cleaned")
		case 2:
			if h.saveLoad() != nil {
				return // C11's subject
			}
			verifReach("reloaded")
		}
		tipHeight := h.repo.Height()
		h.checkLookups("", acc, func(i int) bool {
			if prune == 0 {
				return true
			}
			return h.height[i] > tipHeight-prune
		})
		verifObserve("step", s, op, tipHeight)
	}
	verifReach("done")
}
