package headers

import "fmt"

func init() {
	verifHarnesses["VerifC01History"] = VerifC01History
}

// VerifC01History: after every step of a history of submissions (any tree shape, any arrival
// order, unknown parents, three work weights) interleaved with Clean and Save+Load, the reported
// tip is a maximal-work known header and heights 0..tip are exactly its ancestry.
func VerifC01History() {
	steps := verifParam("steps", 4)
	ops := verifParam("ops", 3) // 1: submit only, 2: +clean, 3: +save/load, 4: +re-submission of a known header
	h := newHist(1000)
	h.setupState()
	for s := 0; s < steps; s++ {
		switch pick(fmt.Sprintf("op%d", s), ops) {
		case 0:
			_, err := h.submit()
			if err != nil {
				c := errClass(err)
				if c == "other-error" {
					// not one of the documented verdicts: the state may have been changed
					verifReach("submit-other-error")
					h.checkTip("after-undocumented-error:")
					continue
				}
			}
			verifReach("submitted")
		case 1:
			err := h.repo.Clean(h.ctx)
			verifAssert(err == nil, "clean-returns-error")
			verifReach("cleaned")
		case 2:
			err := h.saveLoad()
			verifAssert(err == nil, "save-load-returns-error")
			verifReach("reloaded")
		case 3:
			// a header that was submitted before arrives again (another peer announces it)
			if len(h.hdr) > 1 {
				k := 1 + pick(fmt.Sprintf("again%d", s), len(h.hdr)-1)
				h.repo.ProcessHeader(h.ctx, h.hdr[k])
				verifReach("resubmitted")
			}
		}
		h.checkTip("")
	}
	if verifParam("suffix", 0) == 1 {
		// a fixed tail after the symbolic steps: consolidate, persist, restart
		err := h.repo.Clean(h.ctx)
		verifAssert(err == nil, "clean-returns-error")
		h.checkTip("after-clean:")
		err = h.saveLoad()
		verifAssert(err == nil, "save-load-returns-error")
		h.checkTip("after-reload:")
		verifReach("suffix-done")
	}
	verifReach("done")
}
