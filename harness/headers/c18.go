package headers

import (
	"fmt"

	"github.com/tokenized/pkg/bitcoin"
	"github.com/tokenized/pkg/merkle_proof"
	"github.com/tokenized/pkg/wire"
)

func init() {
	verifHarnesses["VerifC18MerkleProof"] = VerifC18MerkleProof
}

func refPair(l, r bitcoin.Hash32) bitcoin.Hash32 {
	b := make([]byte, 0, 64)
	b = append(b, l[:]...)
	b = append(b, r[:]...)
	var out bitcoin.Hash32
	copy(out[:], bitcoin.DoubleSha256(b))
	return out
}

// refMerkle: Bitcoin merkle root of leaves plus, for leaf j, the sibling path and the layers
// (1-based) at which the node is paired with itself.
func refMerkle(leaves []bitcoin.Hash32, j int) (bitcoin.Hash32, []bitcoin.Hash32, []int) {
	level := append([]bitcoin.Hash32(nil), leaves...)
	var path []bitcoin.Hash32
	var dups []int
	layer := 1
	for len(level) > 1 {
		if len(level)%2 == 1 {
			level = append(level, level[len(level)-1])
			if j == len(level)-2 {
				dups = append(dups, layer)
			} else {
				path = append(path, level[j^1])
			}
		} else {
			path = append(path, level[j^1])
		}
		next := make([]bitcoin.Hash32, len(level)/2)
		for k := range next {
			next[k] = refPair(level[2*k], level[2*k+1])
		}
		level = next
		j /= 2
		layer++
	}
	return level[0], path, dups
}

func txidOf(block, k int) bitcoin.Hash32 {
	var t bitcoin.Hash32
	t[0], t[1], t[2] = 0x77, byte(block), byte(k)
	return t
}

// neqBytes is branch-free so that it stays one solver term.
func neqBytes(a []byte, b []byte) bool {
	var d byte
	for i := range a {
		d |= a[i] ^ b[i]
	}
	return d != 0
}

// VerifC18MerkleProof: a proof verifies only if its path recomputes the merkle root of a header
// the repository knows; then the header's true height and best-chain status are reported; every
// single-element alteration of a valid proof fails.
func VerifC18MerkleProof() {
	maxTx := verifParam("maxtx", 4)
	h := newHist(1000)
	// chain: genesis <- 1 <- 2 (best) and a side block 3 on top of genesis (lighter)
	type blk struct {
		txs []bitcoin.Hash32
	}
	blocks := []blk{{}}
	addBlock := func(parent, weight, ntx int) int {
		i := len(h.hdr)
		var txs []bitcoin.Hash32
		for k := 0; k < ntx; k++ {
			txs = append(txs, txidOf(i, k))
		}
		root, _, _ := refMerkle(txs, 0)
		hd := &wire.BlockHeader{Version: 1, Timestamp: uint32(1600000000 + i), Bits: verifBitsTable[weight], Nonce: uint32(1000 + i), MerkleRoot: root}
		hd.PrevBlock = h.hash[parent]
		idx := h.record(hd, parent)
		if err := h.repo.ProcessHeader(h.ctx, hd); err != nil {
			verifAssert(false, "setup-header-refused")
		}
		blocks = append(blocks, blk{txs})
		return idx
	}
	n1 := 1 + pick("ntx1", maxTx)
	n3 := 1 + pick("ntx3", maxTx)
	addBlock(0, 0, n1)
	addBlock(1, 0, 1)
	addBlock(0, 0, n3) // side branch, lighter than the 2-header best chain
	tip := h.indexOfHash(h.repo.LastHash())

	b := 1
	if nondetBool("side-block") {
		b = 3
	}
	txs := blocks[b].txs
	j := pick("txpos", len(txs))
	root, path, dups := refMerkle(txs, j)
	verifAssert(root.Equal(&h.hdr[b].MerkleRoot), "reference-root-mismatch")

	txid := txs[j]
	proof := &merkle_proof.MerkleProof{Index: j, TxID: &txid, Path: path, DuplicatedIndexes: dups}
	withHeader := nondetBool("with-header")
	if withHeader {
		c := h.hdr[b].Copy()
		proof.BlockHeader = &c
	} else {
		bh := h.hash[b]
		proof.BlockHash = &bh
	}

	alt := pick("alteration", 8)
	expectOK := false
	switch alt {
	case 0:
		expectOK = true
	case 1: // another txid
		nb := nondetBytes("txid", 32)
		verifAssume(neqBytes(nb, txid[:]))
		var t bitcoin.Hash32
		copy(t[:], nb)
		proof.TxID = &t
	case 2: // one path element altered
		if len(path) == 0 {
			verifAssume(false)
		}
		k := pick("pathpos", len(path))
		nb := nondetBytes("pathelem", 32)
		verifAssume(neqBytes(nb, path[k][:]))
		np := append([]bitcoin.Hash32(nil), path...)
		copy(np[k][:], nb)
		proof.Path = np
	case 3: // another index inside the tree's width
		depth := len(path) + len(dups)
		ni := int(nondetU8("index"))
		verifAssume(ni != j && ni < (1<<uint(depth)))
		proof.Index = ni
	case 4: // header with another merkle root (an unknown header)
		if !withHeader {
			verifAssume(false)
		}
		nb := nondetBytes("root", 32)
		verifAssume(neqBytes(nb, proof.BlockHeader.MerkleRoot[:]))
		copy(proof.BlockHeader.MerkleRoot[:], nb)
	case 5: // a block hash the repository does not know
		if withHeader {
			verifAssume(false)
		}
		nb := nondetBytes("blockhash", 32)
		for i := range h.hash {
			verifAssume(neqBytes(nb, h.hash[i][:]))
		}
		var x bitcoin.Hash32
		copy(x[:], nb)
		proof.BlockHash = &x
	case 7: // a fabricated header for a fabricated transaction, presented together with a known block hash
		fake := txidOf(99, 0)
		froot, fpath, fdups := refMerkle([]bitcoin.Hash32{fake, txidOf(99, 1)}, 0)
		c := h.hdr[b].Copy()
		c.MerkleRoot = froot
		proof.TxID = &fake
		proof.Index = 0
		proof.Path = fpath
		proof.DuplicatedIndexes = fdups
		proof.BlockHeader = &c
		bh := h.hash[b]
		proof.BlockHash = &bh
	case 6: // the proof of this block presented for another known block
		other := 2
		if withHeader {
			c := h.hdr[other].Copy()
			proof.BlockHeader = &c
		} else {
			bh := h.hash[other]
			proof.BlockHash = &bh
		}
	}

	height, longest, err := h.repo.VerifyMerkleProof(h.ctx, proof)
	verifObserve("proof", b, j, len(txs), withHeader, alt, err == nil, height, longest)
	if expectOK {
		verifReach("valid-proof")
		verifAssert(err == nil, "valid-proof-rejected")
		if err == nil {
			verifAssert(height == h.height[b], "proof-height-wrong")
			verifAssert(longest == h.isAncestor(b, tip), "proof-best-chain-flag-wrong")
		}
	} else {
		verifReach("altered-proof")
		verifAssert(err != nil, fmt.Sprintf("altered-proof-accepted:alteration-%d", alt))
	}
	// neither header nor hash
	p2 := &merkle_proof.MerkleProof{Index: j, TxID: &txid, Path: path, DuplicatedIndexes: dups}
	_, _, err2 := h.repo.VerifyMerkleProof(h.ctx, p2)
	verifAssert(err2 != nil, "proof-without-header-or-hash-accepted")
	verifReach("done")
}

func init() {
	verifHarnesses["VerifC18History"] = VerifC18History
}

// VerifC18History: proofs for blocks anywhere in a repository with history: on the best chain
// above and below the pruned depth (header files), on a recent side branch, on an old side branch
// that a reload drops; optionally after Clean and after Save/Load. A valid proof for a best-chain
// block always verifies; whenever verification succeeds the reported height and best-chain flag
// are the true ones.
func VerifC18History() {
	n := verifParam("long", 7)
	h := newHist(1000)
	txsOf := map[int][]bitcoin.Hash32{}
	weight := 0
	addBlock := func(parent, ntx int) int {
		i := len(h.hdr)
		var txs []bitcoin.Hash32
		for k := 0; k < ntx; k++ {
			txs = append(txs, txidOf(i, k))
		}
		root, _, _ := refMerkle(txs, 0)
		hd := &wire.BlockHeader{Version: 1, Timestamp: uint32(1600000000 + 600*i), Bits: verifBitsTable[weight], Nonce: uint32(1000 + i), MerkleRoot: root}
		hd.PrevBlock = h.hash[parent]
		idx := h.record(hd, parent)
		if err := h.repo.ProcessHeader(h.ctx, hd); err != nil {
			verifAssert(false, "setup-header-refused")
		}
		txsOf[idx] = txs
		return idx
	}
	p := 0
	for k := 0; k < n; k++ {
		i := addBlock(p, 1+k%3)
		if k == 1 {
			addBlock(p, 2) // an old side block low in the chain
		}
		p = i
	}
	if err := h.repo.Clean(h.ctx); err != nil {
		verifAssert(false, "setup-clean-failed")
	}
	if nondetBool("heavy-tip") {
		// one heavy block on the best chain, and a side branch that is taller but lighter
		weight = 2
		p = addBlock(p, 2)
		weight = 0
		s := h.parent[p]
		for k := 0; k < 3; k++ {
			s = addBlock(s, 1+k)
		}
		verifReach("taller-lighter-side-branch")
	} else {
		s1 := addBlock(h.parent[p], 2) // a recent side branch of two (it overtakes)
		addBlock(s1, 3)
	}

	// a fork offered too deep below the tip is refused: the repository must not know that header
	refused := -1
	{
		h.cfg.MaxBranchDepth = 2
		i := len(h.hdr)
		txs := []bitcoin.Hash32{txidOf(i, 0), txidOf(i, 1)}
		root, _, _ := refMerkle(txs, 0)
		hd := &wire.BlockHeader{Version: 1, Timestamp: uint32(1600000000 + 600*i), Bits: verifBitsTable[0], Nonce: uint32(1000 + i), MerkleRoot: root}
		hd.PrevBlock = h.hash[1]
		idx := h.record(hd, 1)
		if err := h.repo.ProcessHeader(h.ctx, hd); err != nil {
			refused = idx
			txsOf[idx] = txs
		}
		h.cfg.MaxBranchDepth = 1000
	}
	switch pick("then", 4) {
	case 1:
		if err := h.saveLoad(); err != nil {
			verifAssert(false, "save-load-returns-error")
			return
		}
		verifReach("reloaded")
	case 2:
		h.repo.Clean(h.ctx)
		verifReach("cleaned")
	case 3:
		p = addBlock(p, 1)
		if err := h.saveLoad(); err != nil {
			verifAssert(false, "save-load-returns-error")
			return
		}
		h.repo.Clean(h.ctx)
		verifReach("extended-reloaded-cleaned")
	}
	tip := h.indexOfHash(h.repo.LastHash())

	b := 1 + pick("block", len(h.hdr)-1)
	txs := txsOf[b]
	j := pick("txpos", len(txs))
	_, path, dups := refMerkle(txs, j)
	txid := txs[j]
	proof := &merkle_proof.MerkleProof{Index: j, TxID: &txid, Path: path, DuplicatedIndexes: dups}
	withHeader := nondetBool("with-header")
	if withHeader {
		c := h.hdr[b].Copy()
		proof.BlockHeader = &c
	} else {
		bh := h.hash[b]
		proof.BlockHash = &bh
	}
	height, longest, err := h.repo.VerifyMerkleProof(h.ctx, proof)
	onBest := h.isAncestor(b, tip)
	verifObserve("proof", b, j, withHeader, onBest, err == nil, height, longest)
	if b == refused {
		verifReach("refused-header")
		verifAssert(err != nil, "proof-for-refused-header-verifies")
		verifReach("done")
		return
	}
	if onBest {
		verifReach("best-chain-block")
		verifAssert(err == nil, "valid-proof-for-best-chain-block-rejected")
	} else {
		verifReach("side-block")
	}
	if err == nil {
		verifAssert(height == h.height[b], "proof-height-wrong")
		verifAssert(longest == onBest, "proof-best-chain-flag-wrong")
	}
	// the same proof with another txid never verifies
	other := txidOf(200, 0)
	proof.TxID = &other
	_, _, err3 := h.repo.VerifyMerkleProof(h.ctx, proof)
	verifAssert(err3 != nil, "altered-proof-accepted:history")
	verifReach("done")
}
