package headers

import (
	"fmt"

	"github.com/tokenized/pkg/bitcoin"
	"github.com/tokenized/pkg/wire"
)

func init() {
	verifHarnesses["VerifC07Stream"] = VerifC07Stream
}

type vSub struct {
	ch    <-chan *wire.BlockHeader
	chain []bitcoin.Hash32 // subscriber's view of the best chain, index = height
	last  []bitcoin.Hash32 // the headers received by the latest drain, in order
}

func (h *vHist) subscribe() *vSub {
	s := &vSub{ch: h.repo.GetNewHeadersAvailableChannel()}
	n := h.repo.Height()
	for ht := 0; ht <= n; ht++ {
		hash, _ := h.repo.Hash(h.ctx, ht)
		s.chain = append(s.chain, *hash)
	}
	return s
}

// drain applies every pending header to the subscriber's chain; returns the number received.
func (s *vSub) drain(tag string) int {
	n := 0
	s.last = nil
	for {
		select {
		case hd := <-s.ch:
			n++
			s.last = append(s.last, *hd.BlockHash())
			at := -1
			for k := len(s.chain) - 1; k >= 0; k-- {
				if s.chain[k].Equal(&hd.PrevBlock) {
					at = k
					break
				}
			}
			if at == -1 {
				verifAssert(false, tag+"stream-header-does-not-attach")
				return n
			}
			s.chain = append(s.chain[:at+1], *hd.BlockHash())
		default:
			return n
		}
	}
}

func (h *vHist) chainMatches(s *vSub) bool {
	n := h.repo.Height()
	if len(s.chain) != n+1 {
		return false
	}
	for ht := 0; ht <= n; ht++ {
		hash, err := h.repo.Hash(h.ctx, ht)
		if err != nil || !hash.Equal(&s.chain[ht]) {
			return false
		}
	}
	return true
}

// VerifC07Stream: a subscriber that applies the new-header stream (attach to PrevBlock, discard
// what was above) always ends up with exactly the chain the repository reports.
func VerifC07Stream() {
	steps := verifParam("steps", 4)
	ops := verifParam("ops", 2)
	h := newHist(1000)
	h.setupState()
	subs := []*vSub{h.subscribe()}
	second := pick("second-subscriber-at", steps+1)
	for s := 0; s < steps; s++ {
		if s == second {
			subs = append(subs, h.subscribe())
		}
		oldTip := h.indexOfHash(h.repo.LastHash())
		op := pick(fmt.Sprintf("op%d", s), ops)
		switch op {
		case 0:
			h.submit()
		case 1:
			h.repo.Clean(h.ctx)
		}
		newTip := h.indexOfHash(h.repo.LastHash())
		expect := 0
		if newTip >= 0 && oldTip >= 0 && newTip != oldTip && h.linked[newTip] && h.linked[oldTip] {
			// headers of the new best chain above the fork point
			a := newTip
			for !h.isAncestor(a, oldTip) {
				expect++
				a = h.parent[a]
			}
		}
		for k, sub := range subs {
			tag := fmt.Sprintf("sub%d:", k)
			got := sub.drain(tag)
			verifAssert(h.chainMatches(sub), tag+"stream-chain-differs-from-reported-chain")
			// every header above the fork point is announced, lowest first, ending with the new tip;
			// nothing that is not on the new best chain is announced. (After a consolidation the
			// repository may announce the fork point itself again: a header the subscriber already
			// has on its chain - tolerated, the statement is about what enters the best chain.)
			verifAssert(got >= expect, tag+"stream-count-wrong")
			if expect <= 1 && newTip >= 0 && oldTip >= 0 && (newTip == oldTip || h.parent[newTip] == oldTip) {
				verifAssert(got == expect, tag+"stream-count-wrong") // plain extension or no change: exactly that
			}
			for j, x := range sub.last {
				i := h.indexOfHash(x)
				verifAssert(i >= 0 && newTip >= 0 && h.isAncestor(i, newTip), tag+"announced-header-not-on-best-chain")
				if i >= 0 && newTip >= 0 {
					verifAssert(h.height[i] == h.height[newTip]-(len(sub.last)-1-j), tag+"announced-headers-not-ascending-to-the-tip")
				}
			}
		}
		verifObserve("step", s, op, oldTip, newTip, expect)
	}
	verifReach("done")
}
