package headers

import "fmt"

func init() {
	verifHarnesses["VerifC08Verdict"] = VerifC08Verdict
}

// VerifC08Verdict: every submission gets the reference verdict; a refusal leaves every observable
// (tip, lookups, stream, a following Save) as it was; re-submitting a known header is a no-op.
func VerifC08Verdict() {
	steps := verifParam("steps", 4)
	maxDepth := pick("maxdepth", verifParam("maxdepthrange", 3))
	h := newHist(maxDepth)
	accepted := []bool{true}
	if verifParam("rich", 0) == 1 {
		h.cfg.MaxBranchDepth = 1000
		for range h.richState() {
			accepted = append(accepted, true)
		}
		h.cfg.MaxBranchDepth = maxDepth
	}
	sub := h.subscribe()
	hasChild := func(p int) bool {
		for i := range h.hdr {
			if accepted[i] && h.parent[i] == p {
				return true
			}
		}
		return false
	}
	refVerdict := func(p int) string {
		if p < 0 || !accepted[p] {
			return "unknown-parent"
		}
		if hasChild(p) && h.repo.Height()-h.height[p] > maxDepth {
			return "too-deep"
		}
		return "ok"
	}
	for s := 0; s < steps; s++ {
		op := 0
		if len(h.hdr) > 1 {
			op = pick(fmt.Sprintf("op%d", s), 2)
		}
		if err := h.repo.Save(h.ctx); err != nil {
			verifAssert(false, "save-returns-error")
			return
		}
		nBefore := len(h.hash)
		before := h.observeRepo(h.repo)
		storeBefore := h.store.clone()
		var got, want string
		idx := -1
		if op == 0 {
			hd, p := h.newHeader()
			want = refVerdict(p)
			idx = h.record(hd, p)
			accepted = append(accepted, false)
			got = errClass(h.repo.ProcessHeader(h.ctx, hd))
			if got == "ok" {
				accepted[idx] = true
			}
		} else {
			idx = 1 + pick(fmt.Sprintf("dup%d", s), len(h.hdr)-1)
			if accepted[idx] {
				want = "ok"
			} else {
				want = refVerdict(h.parent[idx])
			}
			wasAccepted := accepted[idx]
			got = errClass(h.repo.ProcessHeader(h.ctx, h.hdr[idx]))
			if got == "ok" {
				accepted[idx] = true
			}
			if wasAccepted {
				verifReach("resubmitted-known")
				verifAssert(got == "ok", "resubmitting-known-header-not-accepted")
				verifAssert(h.observeRepoN(h.repo, nBefore) == before, "resubmitting-known-header-changed-state")
				verifAssert(sub.drain("dup:") == 0, "resubmitting-known-header-announced")
				if err := h.repo.Save(h.ctx); err != nil {
					verifAssert(false, "save-returns-error")
					return
				}
				verifAssert(storesEqual(storeBefore, h.store), "resubmitting-known-header-changed-what-save-writes")
			}
		}
		verifObserve("step", s, op, idx, want, got)
		if got != want {
			if got == "other-error" {
				verifAssert(false, "undocumented-verdict")
			} else {
				verifAssert(false, "verdict-differs-from-reference:want-"+want+"-got-"+got)
			}
		}
		if got != "ok" {
			verifReach("refused")
			verifAssert(h.observeRepoN(h.repo, nBefore) == before, "refusal-changed-observable-state")
			if !accepted[idx] {
				// the refused header itself stays unknown to every lookup
				_, _, cerr := h.repo.CheckHeader(h.ctx, h.hash[idx])
				_, _, _, gerr := h.repo.GetHeader(h.ctx, h.hash[idx])
				verifAssert(h.repo.HashHeight(h.hash[idx]) == -1 && cerr != nil && gerr != nil, "refused-header-known-to-lookups")
			}
			verifAssert(sub.drain("refused:") == 0, "refusal-announced-headers")
			if err := h.repo.Save(h.ctx); err != nil {
				verifAssert(false, "save-returns-error")
				return
			}
			verifAssert(storesEqual(storeBefore, h.store), "refusal-changed-what-save-writes")
		} else {
			sub.drain("ok:")
		}
	}
	verifReach("done")
}
