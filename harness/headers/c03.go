package headers

import (
	"github.com/pkg/errors"
	"github.com/tokenized/pkg/bitcoin"
	"github.com/tokenized/pkg/wire"
)

func init() {
	verifHarnesses["VerifC03SplitHeight"] = VerifC03SplitHeight
	verifHarnesses["VerifC03RequiredHeader"] = VerifC03RequiredHeader
	verifHarnesses["VerifC03VerifyHeader"] = VerifC03VerifyHeader
}

// splitState builds a production-configured repository whose best chain ends one below the
// BCH/BSV split height at the common fork point, with an optional side branch forked one lower.
func splitState(withSide bool) (*Repository, *Branch, *Branch) {
	return splitStateBeyond(withSide, false)
}

// splitStateBeyond optionally continues the best chain through the BSV split header and one more
// header, so that forks are offered below an already verified split.
func splitStateBeyond(withSide, beyond bool) (*Repository, *Branch, *Branch) {
	return splitStateAt(withSide, beyond, false)
}

// splitStateAt: atBTC builds the same shape one below the BTC split height instead (fork point =
// the BTC split's BeforeHash); there is no required header at that height, only a refused one.
func splitStateAt(withSide, beyond, atBTC bool) (*Repository, *Branch, *Branch) {
	cfg := &Config{Network: bitcoin.MainNet, MaxBranchDepth: 144}
	repo := NewRepository(cfg, newVerifStore())
	repo.DisableDifficulty() // proof of work is C02's subject; split protection stays on (production)
	s := repo.requiredSplit.Height
	forkPoint := repo.requiredSplit.BeforeHash
	if atBTC {
		for _, sp := range repo.splits {
			if sp.Name == SplitNameBTC {
				s = sp.Height
				forkPoint = sp.BeforeHash
			}
		}
	}
	h0 := &wire.BlockHeader{Version: 1, Timestamp: 1542300000, Bits: 0x18021fdb, Nonce: 1}
	main, _ := NewBranch(nil, s-3, h0) // height s-2
	h1 := &wire.BlockHeader{Version: 1, Timestamp: 1542300600, Bits: 0x18021fdb, Nonce: 2, PrevBlock: main.headers[0].Hash}
	main.Add(h1) // height s-1: force the fork point hash
	delete(main.heightsMap, main.headers[1].Hash)
	main.headers[1].Hash = forkPoint
	main.heightsMap[forkPoint] = s - 1
	repo.branches = Branches{main}
	repo.longest = main
	repo.heights[main.headers[0].Hash] = s - 2
	repo.heights[forkPoint] = s - 1
	var side *Branch
	if withSide {
		// a competing header at height s-1 on a fork created below the split
		hs := &wire.BlockHeader{Version: 1, Timestamp: 1542300601, Bits: 0x18021fdb, Nonce: 3, PrevBlock: main.headers[0].Hash}
		side, _ = NewBranch(main, s-2, hs)
		repo.branches = append(repo.branches, side)
		repo.heights[side.headers[0].Hash] = s - 1
	}
	if beyond {
		h2 := &wire.BlockHeader{Version: 1, Timestamp: 1542301200, Bits: 0x18021fdb, Nonce: 4, PrevBlock: repo.requiredSplit.BeforeHash}
		main.Add(h2) // height s: force the BSV split hash
		delete(main.heightsMap, main.headers[2].Hash)
		main.headers[2].Hash = repo.requiredSplit.AfterHash
		main.heightsMap[repo.requiredSplit.AfterHash] = s
		repo.heights[repo.requiredSplit.AfterHash] = s
		h3 := &wire.BlockHeader{Version: 1, Timestamp: 1542301800, Bits: 0x18021fdb, Nonce: 5, PrevBlock: repo.requiredSplit.AfterHash}
		main.Add(h3) // height s+1
		repo.heights[main.headers[3].Hash] = s + 1
	}
	return repo, main, side
}

func symHeader(prefix string) *wire.BlockHeader {
	b := nondetBytes(prefix, 80)
	hd := &wire.BlockHeader{}
	hd.Version = int32(uint32(b[0]) | uint32(b[1])<<8 | uint32(b[2])<<16 | uint32(b[3])<<24)
	copy(hd.PrevBlock[:], b[4:36])
	copy(hd.MerkleRoot[:], b[36:68])
	hd.Timestamp = uint32(b[68]) | uint32(b[69])<<8 | uint32(b[70])<<16 | uint32(b[71])<<24
	hd.Bits = 0x18021fdb // proof of work and the bits rule are C02's subject
	hd.Nonce = uint32(b[76]) | uint32(b[77])<<8 | uint32(b[78])<<16 | uint32(b[79])<<24
	return hd
}

// VerifC03SplitHeight: any 80-byte header offered on top of the fork point (main chain or a fork
// created below it): accepted at the split height only if it hashes to the BSV split hash;
// a header hashing to the BTC or BCH split hash is refused as wrong chain wherever it attaches.
func VerifC03SplitHeight() {
	withSide := nondetBool("with-side-branch")
	atBTC := nondetBool("at-the-btc-split")
	beyond := !atBTC && nondetBool("tip-beyond-split")
	repo, main, side := splitStateAt(withSide, beyond, atBTC)
	ctx := context_bg()
	s := repo.requiredSplit.Height
	forkPoint := repo.requiredSplit.BeforeHash
	if atBTC {
		for _, sp := range repo.splits {
			if sp.Name == SplitNameBTC {
				s = sp.Height
				forkPoint = sp.BeforeHash
			}
		}
		verifReach("at-btc-split")
	}
	x := symHeader("header")
	// parent: the fork point, the side-branch tip (also at s-1), the header below, or anything else
	switch pick("parent", 4) {
	case 0:
		x.PrevBlock = forkPoint
	case 1:
		if side == nil {
			verifAssume(false)
		}
		x.PrevBlock = side.headers[0].Hash
	case 2:
		x.PrevBlock = main.headers[0].Hash
	case 3:
		// fully symbolic parent
	}
	hash := *x.BlockHash()
	if beyond {
		// the BSV split header is already part of the chain: a new header has another hash
		verifAssume(repo.HashHeight(hash) == -1)
	}
	// fact about the real chains (SHA-256d collision-free): the only header hashing to a split's
	// AfterHash is that chain's real split header, whose PrevBlock is the split's fork point
	for _, sp := range repo.splits {
		verifAssume(!hash.Equal(&sp.AfterHash) || x.PrevBlock.Equal(&sp.BeforeHash))
	}
	verifAssume(!hash.Equal(&repo.requiredSplit.AfterHash) || x.PrevBlock.Equal(&repo.requiredSplit.BeforeHash))
	nBranches, nHeights, knownBefore := len(repo.branches), len(repo.heights), repo.HashHeight(hash)
	err := repo.ProcessHeader(ctx, x)
	known := repo.HashHeight(hash)
	if err != nil {
		// a refusal changes nothing
		verifAssert(len(repo.branches) == nBranches && len(repo.heights) == nHeights && known == knownBefore, "refusal-changed-state")
	}

	var btc, bch bitcoin.Hash32
	for _, sp := range repo.splits {
		if sp.Name == SplitNameBTC {
			btc = sp.AfterHash
		}
		if sp.Name == SplitNameBCH {
			bch = sp.AfterHash
		}
	}
	bsv := repo.requiredSplit.AfterHash
	if hash.Equal(&bsv) {
		verifReach("bsv-hash")
		if x.PrevBlock.Equal(&repo.requiredSplit.BeforeHash) && !atBTC {
			verifAssert(err == nil, "bsv-split-header-refused")
		}
	} else if hash.Equal(&btc) || hash.Equal(&bch) {
		verifReach("foreign-split-hash")
		verifAssert(errors.Cause(err) == ErrWrongChain, "foreign-split-header-not-refused-as-wrong-chain")
		verifAssert(known == -1, "foreign-split-header-became-known")
	} else {
		verifReach("other-hash")
		if err == nil && !atBTC {
			verifAssert(known != s, "non-bsv-header-accepted-at-split-height")
		}
	}
	if err == nil && known == s && !atBTC {
		verifAssert(hash.Equal(&bsv), "header-at-split-height-is-not-the-bsv-split-header")
	}
	verifReach("done")
}

// VerifC03RequiredHeader: the real BSV split header is accepted on top of the fork point.
func VerifC03RequiredHeader() {
	repo, _, _ := splitState(nondetBool("with-side-branch"))
	err := repo.ProcessHeader(context_bg(), MainNetRequiredHeader)
	verifAssert(err == nil, "real-bsv-split-header-refused")
	verifAssert(repo.HashHeight(*MainNetRequiredHeader.BlockHash()) == repo.requiredSplit.Height, "real-bsv-split-header-height-wrong")
	verifObserve("required", err == nil)
	verifReach("done")
}

// VerifC03VerifyHeader: the verification-reply check accepts exactly the BSV split header.
func VerifC03VerifyHeader() {
	repo, _, _ := splitState(false)
	x := symHeader("header")
	hash := *x.BlockHash()
	err := repo.VerifyHeader(context_bg(), x)
	bsv := repo.requiredSplit.AfterHash
	if err == nil {
		verifAssert(hash.Equal(&bsv), "verify-header-accepts-non-bsv-header")
		verifReach("accepted")
	} else {
		verifAssert(!hash.Equal(&bsv), "verify-header-refuses-bsv-header")
		for _, sp := range repo.splits {
			if hash.Equal(&sp.AfterHash) {
				verifAssert(errors.Cause(err) == ErrWrongChain, "foreign-split-reply-not-wrong-chain")
				verifReach("foreign")
			}
		}
	}
	errReal := repo.VerifyHeader(context_bg(), MainNetRequiredHeader)
	verifAssert(errReal == nil, "verify-header-refuses-real-bsv-header")
	verifReach("done")
}
