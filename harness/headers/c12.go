package headers

import (
	"fmt"
	"math/big"
)

func init() {
	verifHarnesses["VerifC12Crash"] = VerifC12Crash
}

// VerifC12Crash: the process stops between any two storage writes of a Clean or a Save; a fresh
// repository then loads without error or panic and reports a linked chain of accepted headers
// from genesis with at least the work of the tip at the last completed Save.
func VerifC12Crash() {
	pre := verifParam("pre", 2)
	post := verifParam("post", 2)
	h := newHist(1000)
	h.setupState()
	for s := 0; s < pre; s++ {
		if pick(fmt.Sprintf("op%d", s), 2) == 0 {
			h.submit()
		} else {
			h.repo.Clean(h.ctx)
		}
	}
	savedWork := new(big.Int)
	if verifParam("saved", 0) == 1 || !nondetBool("nothing-saved-yet") {
		if err := h.repo.Save(h.ctx); err != nil {
			verifAssert(false, "save-returns-error")
			return
		}
		savedWork.Set(h.repo.AccumulatedWork())
	} else {
		// first run: storage has never seen a completed Save (no branch index yet)
		verifReach("first-save-or-clean-crashes")
	}
	for s := 0; s < post; s++ {
		if pick(fmt.Sprintf("post%d", s), 2) == 0 {
			h.submit()
		} else {
			break
		}
	}
	// the crashing operation: every write/remove with index >= k is lost
	k := int(nondetU8("crash-after-writes"))
	h.store.armCrash(k)
	if nondetBool("crash-in-clean") {
		h.repo.Clean(h.ctx)
		verifReach("crashed-clean")
	} else {
		h.repo.Save(h.ctx)
		verifReach("crashed-save")
	}
	issued := h.store.ops
	verifAssume(k <= issued) // k == issued: the operation completed
	h.store.disarm()
	if k < issued {
		verifReach("writes-lost")
	}

	r := NewRepository(h.cfg, h.store)
	r.DisableDifficulty()
	err := r.Load(h.ctx)
	verifObserve("crash", issued, err == nil)
	if err != nil {
		verifAssert(false, "load-fails-after-crash")
		return
	}
	h.repo = r
	tip := h.indexOfHash(r.LastHash())
	if tip < 0 || !h.linked[tip] {
		verifAssert(false, "tip-after-crash-is-not-an-accepted-header")
		return
	}
	verifAssert(r.Height() == h.height[tip], "height-after-crash-wrong")
	verifAssert(r.AccumulatedWork().Cmp(h.cum[tip]) == 0, "work-after-crash-wrong")
	verifAssert(r.AccumulatedWork().Cmp(savedWork) >= 0, "less-work-than-last-completed-save")
	h.checkChain("after-crash:", tip)
	verifReach("done")
}
