package headers

import (
	"fmt"

	"github.com/pkg/errors"
	"github.com/tokenized/pkg/bitcoin"
	"github.com/tokenized/pkg/wire"
)

func init() {
	verifHarnesses["VerifC19Locator"] = VerifC19Locator
	verifHarnesses["VerifC19VerifyOnly"] = VerifC19VerifyOnly
}

// buildChain extends the best chain to height n with unit-weight headers (concrete, distinct).
func (h *vHist) extendBest(n int) {
	tip := h.indexOfHash(h.repo.LastHash())
	for h.repo.Height() < n {
		i := len(h.hdr)
		hd := &wire.BlockHeader{Version: 1, Timestamp: uint32(1600000000 + i), Bits: verifBitsTable[0], Nonce: uint32(1000 + i)}
		hd.MerkleRoot[0] = byte(i)
		hd.MerkleRoot[1] = byte(i >> 8)
		hd.PrevBlock = h.hash[tip]
		tip = h.record(hd, tip)
		if err := h.repo.ProcessHeader(h.ctx, hd); err != nil {
			verifAssert(false, "extension-refused")
			return
		}
	}
}

// VerifC19Locator: locators are well-formed for every chain height, side-branch layout, split
// configuration and requested maximum, and a same-chain peer answering per protocol returns
// headers that connect.
func VerifC19Locator() {
	maxH := verifParam("maxheight", 20)
	h := newHist(1000)
	// every height up to 8, then a sparse set of longer chains (the locator steps back exponentially)
	var heights []int
	for _, x := range []int{0, 1, 2, 3, 4, 5, 6, 7, 8, 12, 17, 25, 40, 64} {
		if x <= maxH {
			heights = append(heights, x)
		}
	}
	H := heights[pick("height", len(heights))]
	h.extendBest(H)
	// 0-2 side branches forking off the best chain at symbolic heights (lighter than the best chain)
	nSide := pick("sides", verifParam("maxsides", 1)+1)
	var sideBase []int
	if H < 2 {
		nSide = 0
	}
	for s := 0; s < nSide; s++ {
		var fork int // parent height 0..H-2
		if H <= 9 {
			fork = pick(fmt.Sprintf("fork%d", s), H-1)
		} else {
			fork = []int{0, H / 2, H - 2}[pick(fmt.Sprintf("fork%d", s), 3)]
		}
		p := h.ancestorAt(h.indexOfHash(h.repo.LastHash()), fork)
		i := len(h.hdr)
		weight := 0
		if s == 0 && verifParam("reorg", 0) == 1 && nondetBool("side-overtakes") {
			// one heavy header makes the side branch the most-work chain (a reorg that no Clean has
			// consolidated yet: the former best chain is now a tracked branch based at genesis)
			weight = 2
			verifReach("reorged")
		}
		hd := &wire.BlockHeader{Version: 1, Timestamp: uint32(1600000000 + i), Bits: verifBitsTable[weight], Nonce: uint32(5000 + i)}
		hd.MerkleRoot[0] = byte(i)
		hd.PrevBlock = h.hash[p]
		idx := h.record(hd, p)
		if err := h.repo.ProcessHeader(h.ctx, hd); err != nil {
			if fork < h.repo.longest.PrunedLowestHeight() {
				// the fork point is below the retained depth (pruned from memory): no branch can start there
				verifAssume(false)
			}
			verifAssert(false, "side-branch-refused")
			return
		}
		sideBase = append(sideBase, idx)
	}
	tip := h.indexOfHash(h.repo.LastHash())
	// after a reorg the tip is on the side branch: the former best chain is a tracked branch whose
	// base is genesis, and the chain height is the side branch's
	TH := h.height[tip]
	for k, b := range sideBase {
		if h.isAncestor(b, tip) {
			sideBase[k] = 0
		}
	}
	// splits: 0-2 configured at symbolic heights; BeforeHash is ours at height-1 (as on mainnet) or foreign
	nSplit := pick("splits", 3)
	var splits Splits
	for s := 0; s < nSplit; s++ {
		// split height 1..H+2; the fork point is ours at height-1 (as on mainnet) for the first
		// split, foreign (with a symbolic height, so only behaviour-relevant cases fork) otherwise
		var sh int
		var before bitcoin.Hash32
		if s == 0 && nondetBool("splitours") {
			sh = 1 + pick("splitheight0", H+1) // 1..H+1
			before = h.hash[h.ancestorAt(tip, sh-1)]
		} else {
			sh = int(nondetU8(fmt.Sprintf("splitheight%d", s)))
			verifAssume(sh >= 1 && sh <= H+2)
			before[0], before[1] = 0xbb, byte(s)
		}
		var after bitcoin.Hash32
		after[0], after[1] = 0xaa, byte(s)
		splits = append(splits, Split{Name: fmt.Sprintf("s%d", s), BeforeHash: before, AfterHash: after, Height: sh})
	}
	// sorted highest first, as NewRepository does
	for a := 0; a < len(splits); a++ {
		for b := a + 1; b < len(splits); b++ {
			if splits[b].Height > splits[a].Height {
				splits[a], splits[b] = splits[b], splits[a]
			}
		}
	}
	h.repo.splits = splits
	if verifParam("clean", 0) == 1 && nondetBool("clean") {
		h.repo.Clean(h.ctx)
		verifReach("cleaned")
	}
	max := int(nondetU8("max"))
	verifAssume(max >= 1 && max <= verifParam("maxmax", 12))

	loc, err := h.repo.GetLocatorHashes(h.ctx, max)
	verifAssert(err == nil, "locator-returns-error")
	verifObserve("locator", H, nSide, nSplit, max, len(loc))

	// well-formedness
	bestSeen, bestNonSplit := 0, 0
	lastHeight := 1 << 30
	for k, x := range loc {
		for j := 0; j < k; j++ {
			verifAssert(!loc[j].Equal(&x), "locator-hash-appears-twice")
		}
		i := h.indexOfHash(x)
		isSplit := false
		for _, sp := range splits {
			if sp.BeforeHash.Equal(&x) {
				isSplit = true
			}
		}
		isBase := false
		for _, b := range sideBase {
			if b == i {
				isBase = true
			}
		}
		switch {
		case i >= 0 && h.isAncestor(i, tip):
			bestSeen++
			if !isSplit && !isBase {
				bestNonSplit++
			}
			if bestSeen == 1 {
				if TH == 0 {
					verifAssert(i == 0, "locator-at-height-0-not-genesis")
				} else {
					verifAssert(h.height[i] == TH-1, "locator-does-not-start-with-tip-parent")
				}
			}
			verifAssert(h.height[i] < lastHeight, "locator-best-chain-hashes-not-newest-first")
			lastHeight = h.height[i]
		case isSplit:
			// a configured chain-split fork point that is not on our chain
		case i >= 0:
			verifAssert(isBase, "locator-contains-side-branch-header-that-is-not-a-branch-base")
		default:
			verifAssert(false, "locator-contains-unknown-hash")
		}
	}
	verifAssert(bestNonSplit <= max, "locator-exceeds-requested-maximum")
	verifAssert(bestSeen >= 1, "locator-has-no-best-chain-hash")

	// a peer on a chain sharing a prefix with ours (up to shared height) answers per protocol:
	// first locator hash it knows -> the header after it on its chain
	shared := int(nondetU8("shared"))
	verifAssume(shared <= TH)
	var reply *wire.BlockHeader
	for _, x := range loc {
		i := h.indexOfHash(x)
		if i >= 0 && h.isAncestor(i, tip) && h.height[i] <= shared {
			if h.height[i] < shared {
				// successor is still on the shared prefix: it is our own header
				reply = h.hdr[h.ancestorAt(tip, h.height[i]+1)]
			} else {
				// peer's own continuation above the shared prefix
				reply = &wire.BlockHeader{Version: 1, Timestamp: 1700000000, Bits: verifBitsTable[0], Nonce: 777, PrevBlock: x}
			}
			break
		}
	}
	if reply != nil {
		// "connects to a header we hold": the repository attaches it, or (when the shared hash is
		// below the retained depth) still knows the header it builds on
		err := h.repo.ProcessHeader(h.ctx, reply)
		verifAssert(errors.Cause(err) != ErrUnknownHeader || h.repo.HashHeight(reply.PrevBlock) >= 0, "same-chain-peer-reply-does-not-connect")
		if errors.Cause(err) == ErrUnknownHeader {
			verifReach("peer-replied-on-pruned-history")
		}
		verifReach("peer-replied")
	} else {
		// no locator hash known to the peer: per protocol it answers from the block after genesis
		if shared >= 1 {
			reply = h.hdr[h.ancestorAt(tip, 1)]
		} else {
			reply = &wire.BlockHeader{Version: 1, Timestamp: 1700000000, Bits: verifBitsTable[0], Nonce: 778, PrevBlock: h.hash[0]}
		}
		err := h.repo.ProcessHeader(h.ctx, reply)
		verifAssert(errors.Cause(err) != ErrUnknownHeader, "same-chain-peer-reply-does-not-connect")
		verifReach("peer-replied-from-genesis")
	}
	verifReach("done")
}

// VerifC19VerifyOnly: the verify-only locator is exactly the configured split points, deduplicated.
func VerifC19VerifyOnly() {
	net := bitcoin.MainNet
	if nondetBool("testnet") {
		net = bitcoin.TestNet
	}
	cfg := &Config{Network: net, MaxBranchDepth: 10}
	repo := NewRepository(cfg, newVerifStore())
	repo.InitializeWithGenesis()
	loc, err := repo.GetVerifyOnlyLocatorHashes(context_bg())
	verifAssert(err == nil, "verify-only-locator-error")
	for k := range loc {
		for j := 0; j < k; j++ {
			verifAssert(!loc[j].Equal(&loc[k]), "verify-only-locator-hash-appears-twice")
		}
		found := repo.requiredSplit != nil && repo.requiredSplit.BeforeHash.Equal(&loc[k])
		for _, sp := range repo.splits {
			if sp.BeforeHash.Equal(&loc[k]) {
				found = true
			}
		}
		verifAssert(found, "verify-only-locator-contains-foreign-hash")
	}
	want := 0
	if net == bitcoin.MainNet {
		want = 2 // BTC fork point and the shared BCH/BSV fork point
	}
	verifAssert(len(loc) == want, "verify-only-locator-wrong-size")
	verifObserve("verifyonly", len(loc))
	verifReach("done")
}
