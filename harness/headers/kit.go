package headers

// Shared harness vocabulary for header histories (DESIGN §3): a store with a crash cut-off, a
// reference tree that never looks at the repository's internals, and the operations of a history.

import (
	"bytes"
	"context"
	"fmt"
	"math/big"
	"sort"

	"github.com/pkg/errors"
	"github.com/tokenized/pkg/bitcoin"
	"github.com/tokenized/pkg/storage"
	"github.com/tokenized/pkg/wire"
)

// ---------- storage ----------

type verifStore struct {
	data    map[string][]byte
	ops     int // Write/Remove calls issued since the last armCrash
	crashAt int // ops with index >= crashAt are dropped (-1: never)
	log     []string
}

func newVerifStore() *verifStore {
	return &verifStore{data: map[string][]byte{}, crashAt: -1}
}

func (s *verifStore) armCrash(k int) { s.ops = 0; s.crashAt = k }
func (s *verifStore) disarm()        { s.crashAt = -1 }

func (s *verifStore) dropped() bool {
	d := s.crashAt >= 0 && s.ops >= s.crashAt
	s.ops++
	return d
}

func (s *verifStore) Read(ctx context.Context, key string) ([]byte, error) {
	b, ok := s.data[key]
	if !ok {
		return nil, storage.ErrNotFound
	}
	c := make([]byte, len(b))
	copy(c, b)
	return c, nil
}

func (s *verifStore) Write(ctx context.Context, key string, body []byte, o *storage.Options) error {
	if s.dropped() {
		return nil
	}
	c := make([]byte, len(body))
	copy(c, body)
	s.data[key] = c
	return nil
}

func (s *verifStore) Remove(ctx context.Context, key string) error {
	if s.dropped() {
		return nil
	}
	if _, ok := s.data[key]; !ok {
		return storage.ErrNotFound
	}
	delete(s.data, key)
	return nil
}

func (s *verifStore) Search(ctx context.Context, q map[string]string) ([][]byte, error) {
	return nil, nil
}
func (s *verifStore) Clear(ctx context.Context, q map[string]string) error { return nil }
func (s *verifStore) List(ctx context.Context, p string) ([]string, error) {
	var out []string
	for k := range s.data {
		if len(k) >= len(p) && k[:len(p)] == p {
			out = append(out, k)
		}
	}
	sort.Strings(out)
	return out, nil
}
func (s *verifStore) Copy(ctx context.Context, from, to string) error {
	b, ok := s.data[from]
	if !ok {
		return storage.ErrNotFound
	}
	s.data[to] = b
	return nil
}

func (s *verifStore) clone() *verifStore {
	c := newVerifStore()
	for k, v := range s.data {
		b := make([]byte, len(v))
		copy(b, v)
		c.data[k] = b
	}
	return c
}

func (s *verifStore) keys() []string {
	var out []string
	for k := range s.data {
		out = append(out, k)
	}
	sort.Strings(out)
	return out
}

func storesEqual(a, b *verifStore) bool {
	ka, kb := a.keys(), b.keys()
	if len(ka) != len(kb) {
		return false
	}
	for i := range ka {
		if ka[i] != kb[i] || !bytes.Equal(a.data[ka[i]], b.data[kb[i]]) {
			return false
		}
	}
	return true
}

// ---------- reference tree ----------

// Work table: bits values whose works are ~1 : ~2 : 256 units (a 1-header branch can outweigh a
// long one; near-ties between 2 light and 1 medium header occur).
var verifBitsTable = []uint32{0x1d00ffff, 0x1c7fff80, 0x1c00ffff}

func refWork(bits uint32) *big.Int {
	return bitcoin.ConvertToWork(bitcoin.ConvertToDifficulty(bits))
}

const (
	vUnknownParent = -2
)

type vHist struct {
	ctx   context.Context
	cfg   *Config
	store *verifStore
	repo  *Repository

	// reference tree, index 0 = genesis
	hdr    []*wire.BlockHeader
	hash   []bitcoin.Hash32
	parent []int
	height []int
	cum    []*big.Int
	linked []bool // connected to genesis through submitted headers
	marked []bool

	weights int // number of table entries in use
	lastErr error
	steps   int

	okSubmit map[int]bool // headers whose submission through submit()/scripted() returned nil
}

func newHist(maxDepth int) *vHist {
	h := &vHist{ctx: context.Background(), weights: verifParam("weights", 3)}
	h.cfg = &Config{Network: bitcoin.MainNet, MaxBranchDepth: maxDepth}
	h.store = newVerifStore()
	h.repo = NewRepository(h.cfg, h.store)
	h.repo.DisableDifficulty()
	h.repo.InitializeWithGenesis()
	g := genesisHeader(bitcoin.MainNet)
	h.hdr = []*wire.BlockHeader{g}
	h.hash = []bitcoin.Hash32{*g.BlockHash()}
	h.parent = []int{-1}
	h.height = []int{0}
	h.cum = []*big.Int{refWork(g.Bits)}
	h.linked = []bool{true}
	h.marked = []bool{false}
	return h
}

var verifIdent [256]int

func init() {
	for i := range verifIdent {
		verifIdent[i] = i
	}
}

// pick forks over 0..n-1 (the table lookup makes the engine enumerate the feasible values of v
// in one incremental solver scope).
func pick(name string, n int) int {
	v := nondetU8(name)
	verifAssume(int(v) < n)
	return verifIdent[v]
}

// newHeader builds header number len(h.hdr) with a chosen parent and weight; the timestamp stays
// symbolic. parentSel == len(h.hdr) means "a parent nobody has seen".
func (h *vHist) newHeader() (*wire.BlockHeader, int) {
	i := len(h.hdr)
	parentSel := pick(fmt.Sprintf("parent%d", i), i+1)
	w := pick(fmt.Sprintf("weight%d", i), h.weights)
	hd := &wire.BlockHeader{
		Version:   1,
		Timestamp: nondetU32(fmt.Sprintf("time%d", i)),
		Bits:      verifBitsTable[w],
		Nonce:     uint32(1000 + i),
	}
	hd.MerkleRoot[0] = byte(i)
	p := parentSel
	if parentSel == i {
		p = vUnknownParent
		hd.PrevBlock[0] = 0xee
		hd.PrevBlock[1] = byte(i)
	} else {
		hd.PrevBlock = h.hash[parentSel]
	}
	return hd, p
}

// record adds the header to the reference tree and returns its index.
func (h *vHist) record(hd *wire.BlockHeader, p int) int {
	i := len(h.hdr)
	h.hdr = append(h.hdr, hd)
	h.hash = append(h.hash, *hd.BlockHash())
	h.parent = append(h.parent, p)
	h.marked = append(h.marked, false)
	if p >= 0 && h.linked[p] {
		h.linked = append(h.linked, true)
		h.height = append(h.height, h.height[p]+1)
		c := new(big.Int).Add(h.cum[p], refWork(hd.Bits))
		h.cum = append(h.cum, c)
	} else {
		h.linked = append(h.linked, false)
		h.height = append(h.height, -1)
		h.cum = append(h.cum, nil)
	}
	return i
}

// submit offers a fresh header and returns (index, error).
func (h *vHist) submit() (int, error) {
	hd, p := h.newHeader()
	i := h.record(hd, p)
	err := h.repo.ProcessHeader(h.ctx, hd)
	h.lastErr = err
	h.noteSubmit(i, err)
	return i, err
}

func (h *vHist) noteSubmit(i int, err error) {
	if h.okSubmit == nil {
		h.okSubmit = map[int]bool{0: true}
	}
	if err == nil {
		h.okSubmit[i] = true
	}
}

// known: the repository itself reports the hash as known.
func (h *vHist) known(i int) bool {
	_, _, err := h.repo.CheckHeader(h.ctx, h.hash[i])
	return err == nil
}

func (h *vHist) isAncestor(a, b int) bool {
	for b >= 0 {
		if a == b {
			return true
		}
		b = h.parent[b]
	}
	return false
}

func (h *vHist) ancestorAt(i, height int) int {
	for i >= 0 && h.height[i] > height {
		i = h.parent[i]
	}
	return i
}

// excluded: the header or one of its ancestors is marked invalid.
func (h *vHist) excluded(i int) bool {
	for i >= 0 {
		if h.marked[i] {
			return true
		}
		i = h.parent[i]
	}
	return false
}

func (h *vHist) indexOfHash(x bitcoin.Hash32) int {
	for i := range h.hash {
		if h.hash[i].Equal(&x) {
			return i
		}
	}
	return -1
}

// errClass maps a ProcessHeader result to a verdict name.
func errClass(err error) string {
	if err == nil {
		return "ok"
	}
	switch errors.Cause(err) {
	case ErrUnknownHeader:
		return "unknown-parent"
	case ErrWrongChain:
		return "wrong-chain"
	case ErrHeaderMarkedInvalid:
		return "marked-invalid"
	case ErrBeyondMaxBranchDepth:
		return "too-deep"
	case ErrNotEnoughWork:
		return "bad-work"
	case ErrInvalidTarget:
		return "bad-bits"
	}
	return "other-error"
}

// checkTip asserts C01's statement against the reference tree.
func (h *vHist) checkTip(tag string) {
	// heaviest header the repository accepted (its submission returned nil) or says it knows:
	// an accepted header that was forgotten along the way still counts
	best := -1
	for i := range h.hdr {
		if !h.linked[i] || !(h.okSubmit[i] || h.known(i)) {
			continue
		}
		if best == -1 || h.cum[i].Cmp(h.cum[best]) > 0 {
			best = i
		}
	}
	if best == -1 {
		verifAssert(false, tag+"no-known-header")
		return
	}
	tipHash := h.repo.LastHash()
	tip := h.indexOfHash(tipHash)
	if tip == -1 || !h.linked[tip] {
		verifAssert(false, tag+"tip-not-a-submitted-header")
		return
	}
	verifObserve("tip", tip, h.height[tip], best, len(h.hdr))
	verifAssert(h.cum[tip].Cmp(h.cum[best]) == 0, tag+"tip-not-max-work")
	verifAssert(h.repo.AccumulatedWork().Cmp(h.cum[tip]) == 0, tag+"accumulated-work-wrong")
	verifAssert(h.repo.Height() == h.height[tip], tag+"height-wrong")
	h.checkChain(tag, tip)
}

// checkChain asserts that heights 0..tip report exactly the tip's ancestry, correctly linked.
func (h *vHist) checkChain(tag string, tip int) {
	n := h.repo.Height()
	var prev *bitcoin.Hash32
	for ht := 0; ht <= n; ht++ {
		hash, err := h.repo.Hash(h.ctx, ht)
		if err != nil || hash == nil {
			verifAssert(false, tag+"hash-at-height-unavailable")
			return
		}
		a := h.ancestorAt(tip, ht)
		if a < 0 || h.height[a] != ht {
			verifAssert(false, tag+"reference-ancestor-missing")
			return
		}
		verifAssert(hash.Equal(&h.hash[a]), tag+"hash-at-height-not-tip-ancestor")
		hd, err := h.repo.Header(h.ctx, ht)
		if err != nil || hd == nil {
			verifAssert(false, tag+"header-at-height-unavailable")
			return
		}
		verifAssert(hd.BlockHash().Equal(hash), tag+"header-hash-mismatch")
		if prev != nil {
			verifAssert(hd.PrevBlock.Equal(prev), tag+"chain-not-linked")
		}
		c := *hash
		prev = &c
	}
}

// scaledSaveIsFaithful: with scaled-down constants a Save while the best chain is an unconsolidated
// side branch rewrites the header file that holds the branch's first height from that height on; the
// best-chain headers below it in that file are only safe because, at the real constants
// (pruneDepth 10000 > fork depth <= 144 + headersPerFile 1000), they are always still in memory after
// a Load. Histories in which the scaled constants break that order relation are outside the claim.
func (h *vHist) scaledSaveIsFaithful() bool {
	prune := verifParam("prune", 0)
	if prune == 0 {
		return true
	}
	perFile := verifParam("perfile", 2)
	b := h.repo.longest
	if b == nil || b.parent == nil {
		return true
	}
	for b.parent != nil && b.parent.parent != nil {
		b = b.parent
	}
	first := b.parentHeight + 1
	fileStart := (first / perFile) * perFile
	return fileStart >= h.repo.longest.Height()-prune
}

func (h *vHist) saveLoad() error {
	verifAssume(h.scaledSaveIsFaithful())
	if err := h.repo.Save(h.ctx); err != nil {
		return errors.Wrap(err, "save")
	}
	r := NewRepository(h.cfg, h.store)
	r.DisableDifficulty()
	if err := r.Load(h.ctx); err != nil {
		return errors.Wrap(err, "load")
	}
	h.repo = r
	return nil
}

// ---------- observation of a repository through its public API ----------

// observeRepo renders everything the repository reports about the submitted headers and the best
// chain as a canonical string (hashes are rendered as reference indices, never as digests).
func (h *vHist) observeRepo(r *Repository) string {
	return h.observeRepoN(r, len(h.hash))
}

// observeRepoN observes only the first n submitted headers.
func (h *vHist) observeRepoN(r *Repository, n int) string {
	return h.observeRepoOpt(r, n, true)
}

// observeRepoOpt: withPrev includes PreviousHash, which answers for headers held in memory only
// and therefore legitimately changes to "unknown" when Clean prunes.
func (h *vHist) observeRepoOpt(r *Repository, n int, withPrev bool) string {
	var b bytes.Buffer
	tip := h.indexOfHash(r.LastHash())
	fmt.Fprintf(&b, "H%d T%d W%s|", r.Height(), tip, r.AccumulatedWork().Text(16))
	top := r.Height()
	for ht := 0; ht <= top; ht++ {
		hash, err := r.Hash(h.ctx, ht)
		if err != nil || hash == nil {
			fmt.Fprintf(&b, "h%d:ERR ", ht)
			continue
		}
		hd, err := r.Header(h.ctx, ht)
		ok := err == nil && hd != nil && hd.BlockHash().Equal(hash)
		fmt.Fprintf(&b, "h%d:%d:%t ", ht, h.indexOfHash(*hash), ok)
	}
	b.WriteString("|")
	for i := 0; i < n; i++ {
		ht := r.HashHeight(h.hash[i])
		ch, longest, cerr := r.CheckHeader(h.ctx, h.hash[i])
		ghd, gh, glongest, gerr := r.GetHeader(h.ctx, h.hash[i])
		// the header returned for a hash is the header with that hash
		gsame := gerr == nil && ghd != nil && ghd.BlockHash().Equal(&h.hash[i])
		ph, pht := r.PreviousHash(h.hash[i])
		pi := -1
		if ph != nil {
			pi = h.indexOfHash(*ph)
		}
		if !withPrev {
			pi, pht = -2, -2
		}
		fmt.Fprintf(&b, "%d:%d/%d,%t,%t/%d,%t,%t,%t/%d,%d ", i, ht, ch, longest, cerr == nil, gh, glongest, gerr == nil, gsame, pi, pht)
	}
	return b.String()
}

// refBestTip returns the heaviest linked, known, not-excluded header (first in submission order on ties
// is not required: callers compare work only).
func (h *vHist) refBestWork(r *Repository) *big.Int {
	var best *big.Int
	for i := range h.hdr {
		if !h.linked[i] || h.excluded(i) {
			continue
		}
		if _, _, err := r.CheckHeader(h.ctx, h.hash[i]); err != nil {
			continue
		}
		if best == nil || h.cum[i].Cmp(best) > 0 {
			best = h.cum[i]
		}
	}
	return best
}

func context_bg() context.Context { return context.Background() }


// scripted submits a concrete header (no symbolic choice) with the given parent index and weight.
func (h *vHist) scripted(parent, weight int) (int, error) {
	i := len(h.hdr)
	hd := &wire.BlockHeader{Version: 1, Timestamp: uint32(1600000000 + 600*i), Bits: verifBitsTable[weight], Nonce: uint32(3000 + i)}
	hd.MerkleRoot[0] = byte(i)
	hd.PrevBlock = h.hash[parent]
	idx := h.record(hd, parent)
	err := h.repo.ProcessHeader(h.ctx, hd)
	h.noteSubmit(idx, err)
	return idx, err
}

// richState builds, by concrete submissions, a tree with a best chain, a side branch of three
// headers, a fork of that side branch and a one-header fork near the tip:
//
//	G - m1 - m2 - m3 - m4          (best chain, unit weights)
//	     \         \
//	      a1-a2-a3   c1
//	       \
//	        b1-b2
//
// The symbolic steps of a harness then start from this state ("drive the unit from a
// constructed state" instead of reaching it through long symbolic histories).
func (h *vHist) richState() []int {
	var idx []int
	add := func(parent, weight int) int {
		i, err := h.scripted(parent, weight)
		if err != nil {
			verifAssert(false, "rich-state-setup-refused")
		}
		idx = append(idx, i)
		return i
	}
	m1 := add(0, 0)
	m2 := add(m1, 0)
	m3 := add(m2, 1)
	a1 := add(m1, 0)
	a2 := add(a1, 0)
	m4 := add(m3, 0)
	add(a2, 0) // a3
	b1 := add(a1, 0)
	add(b1, 0) // b2
	add(m3, 0) // c1
	_ = m4
	return idx
}


// lateState is a tree whose branches were created in decreasing fork-height order (the opposite of
// richState), one header short of a tie between the two side branches:
//
//	G - m1 - m2 - m3
//	     \    \
//	      \    a1-a2      (created first, best chain)
//	       b1-b2          (created afterwards, forks lower)
func (h *vHist) lateState() []int {
	var idx []int
	add := func(parent, weight int) int {
		i, err := h.scripted(parent, weight)
		if err != nil {
			verifAssert(false, "late-state-setup-refused")
		}
		idx = append(idx, i)
		return i
	}
	m1 := add(0, 0)
	m2 := add(m1, 0)
	add(m2, 0) // m3
	a1 := add(m2, 0)
	add(a1, 0) // a2
	b1 := add(m1, 0)
	add(b1, 0) // b2
	return idx
}

// longState builds (for runs with scaled-down constants) a best chain of n unit-weight headers,
// runs Clean so that the oldest headers are pruned from memory and written to header files, and
// adds a two-header side branch near the tip. Symbolic steps then start from a pruned repository.
func (h *vHist) longState(n int) []int {
	var idx []int
	p := 0
	for k := 0; k < n; k++ {
		i, err := h.scripted(p, 0)
		if err != nil {
			verifAssert(false, "long-state-setup-refused")
		}
		idx = append(idx, i)
		if k == 1 && verifParam("lowside", 1) == 1 {
			// an old one-header side branch low in the chain (far below the retained depth later);
			// the repository keeps everything above the lowest fork point in memory, so runs that are
			// about history served from header files switch it off ("lowside": 0)
			if l, err := h.scripted(idx[0], 0); err == nil {
				idx = append(idx, l)
			}
		}
		p = i
	}
	if err := h.repo.Clean(h.ctx); err != nil {
		verifAssert(false, "long-state-clean-failed")
	}
	// a recent side branch forking below the tip: two headers (it overtakes: the best chain is then
	// an unconsolidated side branch), or with "sidepick" any of none / one header (a tie, the main
	// branch stays best) / two headers
	sideLen := 2
	if verifParam("sidepick", 0) == 1 {
		sideLen = pick("recent-side-length", 3)
	}
	at := h.parent[p]
	for k := 0; k < sideLen; k++ {
		s, err := h.scripted(at, 0)
		if err != nil {
			break
		}
		idx = append(idx, s)
		at = s
	}
	return idx
}

// setupState applies the state construction selected by the run's parameters and returns the
// number of headers it submitted.
func (h *vHist) setupState() int {
	before := len(h.hdr)
	switch {
	case verifParam("rich", 0) == 1:
		h.richState()
	case verifParam("rich", 0) == 2:
		h.lateState()
	case verifParam("long", 0) > 0:
		n := verifParam("long", 0)
		if lo := verifParam("longmin", 0); lo > 0 && lo < n {
			// every chain length in [longmin, long]: file and prune boundaries fall differently
			n = lo + pick("chain-length", n-lo+1)
		}
		h.longState(n)
	}
	if verifParam("saved", 0) == 1 {
		// the constructed state has been persisted once: storage holds its files
		if err := h.repo.Save(h.ctx); err != nil {
			verifAssert(false, "setup-save-failed")
		}
	}
	return len(h.hdr) - before
}
