package bitcoin_reader

import (
	"context"
	"fmt"

	"github.com/pkg/errors"
	"github.com/tokenized/pkg/bitcoin"
	"github.com/tokenized/pkg/wire"
)

func init() {
	verifHarnesses["VerifC05Synchronize"] = VerifC05Synchronize
}

// chainHeaders is the header repository seen by the synchroniser: a best chain of token hashes
// that can be reorganised above a height.
type chainHeaders struct {
	spyHeaders
	chain []bitcoin.Hash32 // index = height
	known map[bitcoin.Hash32]int
}

func chainHash(branch, height int) bitcoin.Hash32 {
	var h bitcoin.Hash32
	h[0], h[1], h[2] = 0x10, byte(branch), byte(height)
	return h
}

func newChainHeaders(length int) *chainHeaders {
	c := &chainHeaders{known: map[bitcoin.Hash32]int{}}
	for h := 0; h <= length; h++ {
		c.chain = append(c.chain, chainHash(0, h))
		c.known[c.chain[h]] = h
	}
	return c
}

func (c *chainHeaders) reorgAbove(height int) {
	for h := height + 1; h < len(c.chain); h++ {
		c.chain[h] = chainHash(1, h)
		c.known[c.chain[h]] = h
	}
	// the new branch is one longer (more work)
	n := len(c.chain)
	c.chain = append(c.chain, chainHash(1, n))
	c.known[c.chain[n]] = n
}

// extend adds one header on top of the current best chain.
func (c *chainHeaders) extend() {
	n := len(c.chain)
	branch := int(c.chain[n-1][1])
	c.chain = append(c.chain, chainHash(branch, n))
	c.known[c.chain[n]] = n
}

func (c *chainHeaders) Height() int              { return len(c.chain) - 1 }
func (c *chainHeaders) LastHash() bitcoin.Hash32 { return c.chain[len(c.chain)-1] }
func (c *chainHeaders) HashHeight(h bitcoin.Hash32) int {
	if ht, ok := c.known[h]; ok {
		return ht
	}
	return -1
}
func (c *chainHeaders) Hash(ctx context.Context, height int) (*bitcoin.Hash32, error) {
	if height < 0 || height >= len(c.chain) {
		return nil, errors.New("height beyond tip")
	}
	h := c.chain[height]
	return &h, nil
}
func (c *chainHeaders) PreviousHash(h bitcoin.Hash32) (*bitcoin.Hash32, int) {
	ht, ok := c.known[h]
	if !ok || ht == 0 {
		return nil, -1
	}
	// parent on the branch the hash belongs to
	var p bitcoin.Hash32
	if h[1] == 1 && chainHash(1, ht-1) == c.chain[ht-1] {
		p = chainHash(1, ht-1)
	} else if h[1] == 1 {
		p = chainHash(0, ht-1)
	} else {
		p = chainHash(0, ht-1)
	}
	return &p, ht - 1
}

type blockTxMap struct {
	done   map[bitcoin.Hash32]bool
	calls  int
	hookAt int    // FetchBlockTxIDs call index at which hook runs (-1: never)
	hook   func() // e.g. a new header arrives while the synchroniser walks back
}

func (b *blockTxMap) FetchBlockTxIDs(ctx context.Context, h bitcoin.Hash32) ([]bitcoin.Hash32, bool, error) {
	k := b.calls
	b.calls++
	if k == b.hookAt && b.hook != nil {
		b.hook()
	}
	return nil, b.done[h], nil
}
func (b *blockTxMap) AppendBlockTxIDs(ctx context.Context, h bitcoin.Hash32, t []bitcoin.Hash32) error {
	b.done[h] = true
	return nil
}

type requestRec struct {
	hash   bitcoin.Hash32
	height int
	round  int
}

// VerifC05Synchronize: the block synchroniser against any block source that honours "each
// request ends in exactly one terminal signal": ascending contiguous best-chain blocks from the
// first unprocessed block at or above the start height, none processed, none below start, an
// orphaned pending request is abandoned and the thread finishes.
func VerifC05Synchronize() {
	ctx := ctxbg()
	length := 2 + pick("length", verifParam("maxlength", 4)) // tip height 2..
	start := pick("start", length+2)                        // start height 0..length+1
	hs := newChainHeaders(length)
	btm := &blockTxMap{done: map[bitcoin.Hash32]bool{}, hookAt: -1}
	processedBefore := make([]bool, length+1)
	for h := 0; h <= length; h++ {
		if nondetBool(fmt.Sprintf("processed%d", h)) {
			btm.done[hs.chain[h]] = true
			processedBefore[h] = true
		}
	}
	cfg := DefaultConfig()
	cfg.StartBlockHeight = start
	m := NewNodeManager("/verif/", cfg, hs, &spyPeers{})
	bm := NewBlockManager(btm, nil, 2, 0)
	m.SetBlockManager(btm, bm, &spyProcessor{failAt: -1})
	m.initialDelayComplete = true

	reorgAt := -1
	reorgAbove := 0
	if nondetBool("reorg-during-round") {
		reorgAt = pick("reorg-at-request", 3)
		reorgAbove = pick("reorg-above", length)
	}
	failAt := -1
	if nondetBool("source-fails") {
		failAt = pick("fail-at-request", 3)
	}
	retrigger := nondetBool("trigger-during-round")
	newHeaderDuringWalk := false
	if nondetBool("new-header-while-walking-back") {
		newHeaderDuringWalk = true
		btm.hookAt = pick("walk-call", 3)
	}

	var log []requestRec
	round := 0
	served := 0
	consumerDone := make(chan bool)
	go func() {
		for req := range bm.requests {
			log = append(log, requestRec{req.hash, req.height, round})
			k := served
			served++
			if k == 0 && retrigger {
				m.TriggerBlockSynchronize(ctx)
			}
			if k == reorgAt {
				hs.reorgAbove(reorgAbove)
				verifReach("reorged")
			}
			cur, _ := hs.Hash(ctx, req.height)
			switch {
			case cur == nil || !cur.Equal(&req.hash):
				// the block left the best chain: a source can not deliver it; hold until aborted
				<-req.abort
				req.complete <- BlockAborted
				verifReach("aborted-orphan")
				round++
			case k == failAt:
				req.complete <- errors.New("node not available")
				verifReach("source-failed")
				round++
			default:
				btm.done[req.hash] = true
				close(req.complete)
			}
		}
		consumerDone <- true
	}()

	// what round 0 must request
	tip := length
	var want []int
	if tip >= start && !processedBefore[tip] {
		first := tip
		for first-1 >= start && !processedBefore[first-1] {
			first--
		}
		for h := first; h <= tip; h++ {
			want = append(want, h)
		}
	}
	if newHeaderDuringWalk {
		btm.hook = func() {
			hs.extend()
			m.TriggerBlockSynchronize(ctx)
			verifReach("header-arrived-during-walk-back")
		}
	}
	m.TriggerBlockSynchronize(ctx)
	m.syncBlocksWait.Wait() // natively this waits for real timers (10 s orphan poll); virtual under the engine
	left := verifQuiesce()
	verifObserve("c05", length, start, len(log))

	// the thread finished: only the consumer waits for more requests
	verifAssert(left <= 1, "synchroniser-or-helper-left-blocked:"+verifBlockedInfo())
	m.blockManagerLock.Lock()
	th := m.blockManagerThread
	m.blockManagerLock.Unlock()
	if th != nil {
		verifAssert(th.IsComplete(), "synchroniser-thread-did-not-finish")
	}

	// round 0 (up to the first abnormal answer)
	var r0 []requestRec
	for _, r := range log {
		if r.round == 0 {
			r0 = append(r0, r)
		}
	}
	for k, r := range r0 {
		verifAssert(r.height >= start, "block-below-start-height-requested")
		if r.height <= length {
			verifAssert(!processedBefore[r.height] || !r.hash.Equal(&chainHash0[r.height]), "already-processed-block-requested")
		}
		if k > 0 {
			verifAssert(r.height == r0[k-1].height+1, "round-not-ascending-contiguous")
		}
		for j := 0; j < k; j++ {
			verifAssert(!r0[j].hash.Equal(&r.hash), "block-requested-twice-in-a-round")
		}
	}
	if len(want) > 0 && len(r0) > 0 {
		verifAssert(r0[0].height == want[0], "round-does-not-start-at-first-unprocessed-block")
	}
	if reorgAt == -1 && failAt == -1 && !newHeaderDuringWalk {
		verifAssert(len(r0) == len(want), "round-did-not-request-every-unprocessed-best-chain-block")
	}
	if len(want) == 0 && !newHeaderDuringWalk {
		verifAssert(len(log) == 0, "blocks-requested-although-in-sync-or-below-start")
	}
	// nothing went wrong at the source and the chain only grew: when the reader goes idle every
	// best-chain block from the first one it had to process up to the current tip is processed
	if reorgAt == -1 && failAt == -1 && len(want) > 0 && hs.Height() >= start {
		for ht := want[0]; ht <= hs.Height(); ht++ {
			verifAssert(btm.done[hs.chain[ht]], "reader-idle-with-unprocessed-best-chain-block")
		}
	}
	// later rounds continue on the then-current best chain
	for _, r := range log {
		if r.round > 0 {
			verifReach("later-round")
			verifAssert(r.height >= start, "block-below-start-height-requested")
		}
	}
	verifReach("done")
}

var chainHash0 = func() []bitcoin.Hash32 {
	var out []bitcoin.Hash32
	for h := 0; h < 16; h++ {
		out = append(out, chainHash(0, h))
	}
	return out
}()

var _ = wire.CmdBlock
