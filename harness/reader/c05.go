package bitcoin_reader

import (
	"context"
	"fmt"
	"sync"
	"time"

	"github.com/google/uuid"

	"github.com/pkg/errors"
	"github.com/tokenized/pkg/bitcoin"
	"github.com/tokenized/pkg/wire"
)

func init() {
	verifHarnesses["VerifC05Synchronize"] = VerifC05Synchronize
}

// chainHeaders is the header repository seen by the synchroniser: a best chain of token hashes
// that can be reorganised above a height.
type chainHeaders struct {
	spyHeaders
	chain []bitcoin.Hash32 // index = height
	known map[bitcoin.Hash32]int
}

func chainHash(branch, height int) bitcoin.Hash32 {
	var h bitcoin.Hash32
	h[0], h[1], h[2] = 0x10, byte(branch), byte(height)
	return h
}

func newChainHeaders(length int) *chainHeaders {
	c := &chainHeaders{known: map[bitcoin.Hash32]int{}}
	for h := 0; h <= length; h++ {
		c.chain = append(c.chain, chainHash(0, h))
		c.known[c.chain[h]] = h
	}
	return c
}

func (c *chainHeaders) reorgAbove(height int) {
	for h := height + 1; h < len(c.chain); h++ {
		c.chain[h] = chainHash(1, h)
		c.known[c.chain[h]] = h
	}
	// the new branch is one longer (more work)
	n := len(c.chain)
	c.chain = append(c.chain, chainHash(1, n))
	c.known[c.chain[n]] = n
}

// extend adds one header on top of the current best chain.
func (c *chainHeaders) extend() {
	n := len(c.chain)
	branch := int(c.chain[n-1][1])
	c.chain = append(c.chain, chainHash(branch, n))
	c.known[c.chain[n]] = n
}

func (c *chainHeaders) Height() int              { return len(c.chain) - 1 }
func (c *chainHeaders) LastHash() bitcoin.Hash32 { return c.chain[len(c.chain)-1] }
func (c *chainHeaders) HashHeight(h bitcoin.Hash32) int {
	if ht, ok := c.known[h]; ok {
		return ht
	}
	return -1
}
func (c *chainHeaders) Hash(ctx context.Context, height int) (*bitcoin.Hash32, error) {
	if height < 0 || height >= len(c.chain) {
		return nil, errors.New("height beyond tip")
	}
	h := c.chain[height]
	return &h, nil
}
func (c *chainHeaders) PreviousHash(h bitcoin.Hash32) (*bitcoin.Hash32, int) {
	ht, ok := c.known[h]
	if !ok || ht == 0 {
		return nil, -1
	}
	// parent on the branch the hash belongs to
	var p bitcoin.Hash32
	if h[1] == 1 && chainHash(1, ht-1) == c.chain[ht-1] {
		p = chainHash(1, ht-1)
	} else if h[1] == 1 {
		p = chainHash(0, ht-1)
	} else {
		p = chainHash(0, ht-1)
	}
	return &p, ht - 1
}

type blockTxMap struct {
	done   map[bitcoin.Hash32]bool
	calls  int
	hookAt int    // FetchBlockTxIDs call index at which hook runs (-1: never)
	hook   func() // e.g. a new header arrives while the synchroniser walks back
}

func (b *blockTxMap) FetchBlockTxIDs(ctx context.Context, h bitcoin.Hash32) ([]bitcoin.Hash32, bool, error) {
	k := b.calls
	b.calls++
	if k == b.hookAt && b.hook != nil {
		b.hook()
	}
	return nil, b.done[h], nil
}
func (b *blockTxMap) AppendBlockTxIDs(ctx context.Context, h bitcoin.Hash32, t []bitcoin.Hash32) error {
	b.done[h] = true
	return nil
}

type requestRec struct {
	hash   bitcoin.Hash32
	height int
	round  int
}

// VerifC05Synchronize: the block synchroniser against any block source that honours "each
// request ends in exactly one terminal signal": ascending contiguous best-chain blocks from the
// first unprocessed block at or above the start height, none processed, none below start, an
// orphaned pending request is abandoned and the thread finishes.
func VerifC05Synchronize() {
	ctx := ctxbg()
	length := 2 + pick("length", verifParam("maxlength", 4)) // tip height 2..
	start := pick("start", length+2)                        // start height 0..length+1
	hs := newChainHeaders(length)
	btm := &blockTxMap{done: map[bitcoin.Hash32]bool{}, hookAt: -1}
	processedBefore := make([]bool, length+1)
	for h := 0; h <= length; h++ {
		if nondetBool(fmt.Sprintf("processed%d", h)) {
			btm.done[hs.chain[h]] = true
			processedBefore[h] = true
		}
	}
	cfg := DefaultConfig()
	cfg.StartBlockHeight = start
	m := NewNodeManager("/verif/", cfg, hs, &spyPeers{})
	bm := NewBlockManager(btm, nil, 2, 0)
	m.SetBlockManager(btm, bm, &spyProcessor{failAt: -1})
	m.initialDelayComplete = true

	reorgAt := -1
	reorgAbove := 0
	if nondetBool("reorg-during-round") {
		reorgAt = pick("reorg-at-request", 3)
		reorgAbove = pick("reorg-above", length)
	}
	failAt := -1
	if nondetBool("source-fails") {
		failAt = pick("fail-at-request", 3)
	}
	retrigger := nondetBool("trigger-during-round")
	newHeaderDuringWalk := false
	if nondetBool("new-header-while-walking-back") {
		newHeaderDuringWalk = true
		btm.hookAt = pick("walk-call", 3)
	}

	var log []requestRec
	round := 0
	served := 0
	consumerDone := make(chan bool)
	abortedOnce := false
	go func() {
		for req := range bm.requests {
			log = append(log, requestRec{req.hash, req.height, round})
			k := served
			served++
			if k == 0 && retrigger {
				m.TriggerBlockSynchronize(ctx)
			}
			if k == reorgAt {
				hs.reorgAbove(reorgAbove)
				verifReach("reorged")
			}
			cur, _ := hs.Hash(ctx, req.height)
			switch {
			case cur == nil || !cur.Equal(&req.hash):
				// the block left the best chain: a source can not deliver it; hold until aborted.
				// The only reorganisation of a run happens before the first abort, so a round
				// that follows an abort walks back on the new best chain: a request for a block
				// off the best chain after an abort is the old round going on with its stale list
				verifAssert(!abortedOnce, "block-off-the-best-chain-requested-after-an-abort")
				abortedOnce = true
				<-req.abort
				req.complete <- BlockAborted
				verifReach("aborted-orphan")
				round++
			case k == failAt:
				req.complete <- errors.New("node not available")
				verifReach("source-failed")
				round++
			default:
				btm.done[req.hash] = true
				close(req.complete)
			}
		}
		consumerDone <- true
	}()

	// what round 0 must request
	tip := length
	var want []int
	if tip >= start && !processedBefore[tip] {
		first := tip
		for first-1 >= start && !processedBefore[first-1] {
			first--
		}
		for h := first; h <= tip; h++ {
			want = append(want, h)
		}
	}
	if newHeaderDuringWalk {
		btm.hook = func() {
			hs.extend()
			m.TriggerBlockSynchronize(ctx)
			verifReach("header-arrived-during-walk-back")
		}
	}
	m.TriggerBlockSynchronize(ctx)
	m.syncBlocksWait.Wait() // natively this waits for real timers (10 s orphan poll); virtual under the engine
	left := verifQuiesce()
	verifObserve("c05", length, start, len(log))

	// the thread finished: only the consumer waits for more requests
	verifAssert(left <= 1, "synchroniser-or-helper-left-blocked:"+verifBlockedInfo())
	m.blockManagerLock.Lock()
	th := m.blockManagerThread
	m.blockManagerLock.Unlock()
	if th != nil {
		verifAssert(th.IsComplete(), "synchroniser-thread-did-not-finish")
	}

	// round 0 (up to the first abnormal answer)
	var r0 []requestRec
	for _, r := range log {
		if r.round == 0 {
			r0 = append(r0, r)
		}
	}
	for k, r := range r0 {
		verifAssert(r.height >= start, "block-below-start-height-requested")
		if r.height <= length {
			verifAssert(!processedBefore[r.height] || !r.hash.Equal(&chainHash0[r.height]), "already-processed-block-requested")
		}
		if k > 0 {
			verifAssert(r.height == r0[k-1].height+1, "round-not-ascending-contiguous")
		}
		for j := 0; j < k; j++ {
			verifAssert(!r0[j].hash.Equal(&r.hash), "block-requested-twice-in-a-round")
		}
	}
	if len(want) > 0 && len(r0) > 0 {
		verifAssert(r0[0].height == want[0], "round-does-not-start-at-first-unprocessed-block")
	}
	if reorgAt == -1 && failAt == -1 && !newHeaderDuringWalk {
		verifAssert(len(r0) == len(want), "round-did-not-request-every-unprocessed-best-chain-block")
	}
	if len(want) == 0 && !newHeaderDuringWalk {
		verifAssert(len(log) == 0, "blocks-requested-although-in-sync-or-below-start")
	}
	// nothing went wrong at the source and the chain only grew: when the reader goes idle every
	// best-chain block from the first one it had to process up to the current tip is processed
	if reorgAt == -1 && failAt == -1 && len(want) > 0 && hs.Height() >= start {
		for ht := want[0]; ht <= hs.Height(); ht++ {
			verifAssert(btm.done[hs.chain[ht]], "reader-idle-with-unprocessed-best-chain-block")
		}
	}
	// later rounds continue on the then-current best chain
	for _, r := range log {
		if r.round > 0 {
			verifReach("later-round")
			verifAssert(r.height >= start, "block-below-start-height-requested")
		}
	}
	verifReach("done")
}

var chainHash0 = func() []bitcoin.Hash32 {
	var out []bitcoin.Hash32
	for h := 0; h < 16; h++ {
		out = append(out, chainHash(0, h))
	}
	return out
}()

var _ = wire.CmdBlock

func init() {
	verifHarnesses["VerifC05Pipeline"] = VerifC05Pipeline
}

// chainRequestor is a set of peers serving the blocks of the harness chain: every RequestBlock is a
// connection that delivers the requested block, or drops after delivering all but the last
// announced transaction (scripted per request).
type chainRequestor struct {
	headers  map[bitcoin.Hash32]*wire.BlockHeader
	txs      map[bitcoin.Hash32][]*wire.MsgTx
	script   []int // per request: 0 deliver, 1 drop mid-block
	requests []bitcoin.Hash32
	ctx      context.Context
}

func (r *chainRequestor) RequestBlock(ctx context.Context, hash bitcoin.Hash32, handler HandleBlock,
	onStop OnStop) (BlockRequestCanceller, error) {
	k := len(r.requests)
	r.requests = append(r.requests, hash)
	behaviour := 0
	if k < len(r.script) {
		behaviour = r.script[k]
	}
	started := false
	can := &spyCanceller{id: uuid.New(), started: func() bool { return started }}
	hd, ok := r.headers[hash]
	if !ok {
		return can, nil // nobody has this block: the request is never answered
	}
	txs := r.txs[hash]
	go func() {
		ch := make(chan *wire.MsgTx, 10)
		announced := uint64(len(txs))
		send := txs
		if behaviour == 1 {
			send = txs[:len(txs)-1]
		}
		for _, tx := range send {
			ch <- tx
		}
		close(ch)
		started = true
		handler(r.ctx, hd, announced, ch)
	}()
	return can, nil
}

// VerifC05Pipeline: the synchroniser on top of the real header repository, the real BlockManager
// and real BlockDownloaders, served by scripted peers: whatever peers drop mid-block, the blocks
// from the start height to the tip are processed in ascending order, each exactly once, and a
// block is only recorded as processed after it was processed completely.
func VerifC05Pipeline() {
	ctx := ctxbg()
	n := verifParam("length", 3)
	repo := realHeaders()
	repo.DisableDifficulty()
	req := &chainRequestor{headers: map[bitcoin.Hash32]*wire.BlockHeader{}, txs: map[bitcoin.Hash32][]*wire.MsgTx{}, ctx: ctx}
	prev := repo.LastHash()
	var chain []bitcoin.Hash32
	chain = append(chain, prev)
	for i := 1; i <= n; i++ {
		txs := []*wire.MsgTx{mkTx(10 * i), mkTx(10*i + 1)}
		hd := &wire.BlockHeader{Version: 1, Timestamp: uint32(1600000000 + 600*i), Bits: 0x1d00ffff, Nonce: uint32(i), PrevBlock: prev}
		hd.MerkleRoot = refMerkleRoot([]bitcoin.Hash32{*txs[0].TxHash(), *txs[1].TxHash()})
		if err := repo.ProcessHeader(ctx, hd); err != nil {
			verifAssert(false, "setup-header-refused")
			return
		}
		prev = *hd.BlockHash()
		chain = append(chain, prev)
		req.headers[prev] = hd
		req.txs[prev] = txs
	}
	if verifParam("clean", 0) == 1 {
		// (with scaled constants) the older part of the chain is only in the header files
		if err := repo.Clean(ctx); err != nil {
			verifAssert(false, "setup-clean-failed")
		}
		verifReach("cleaned")
	}
	start := 1 + pick("start", n)
	nscript := verifParam("scripted", 2)
	for k := 0; k < nscript; k++ {
		req.script = append(req.script, pick(fmt.Sprintf("peer%d", k), 2))
	}
	spy := &pipeProcessor{}
	spy.failAt = -1
	btm := &pipeBlockTxs{done: map[bitcoin.Hash32]bool{}}
	cfg := DefaultConfig()
	cfg.StartBlockHeight = start
	m := NewNodeManager("/verif/", cfg, repo, &spyPeers{})
	bm := NewBlockManager(btm, req, 1, 5*time.Millisecond)
	m.SetBlockManager(btm, bm, spy)
	m.initialDelayComplete = true
	interrupt := make(chan interface{})
	var runDone sync.WaitGroup
	runDone.Add(1)
	go func() {
		bm.Run(ctx, interrupt)
		runDone.Done()
	}()

	m.TriggerBlockSynchronize(ctx)
	m.syncBlocksWait.Wait()

	heightOf := func(hash bitcoin.Hash32) int {
		for h := range chain {
			if chain[h].Equal(&hash) {
				return h
			}
		}
		return -1
	}
	verifObserve("pipeline", n, start, len(req.requests), len(btm.order))
	// recorded as processed: exactly the blocks start..tip, in ascending order, each once
	last := start - 1
	for _, hash := range btm.order {
		ht := heightOf(hash)
		verifAssert(ht >= start, "block-below-start-height-requested")
		verifAssert(ht == last+1, "blocks-not-recorded-in-ascending-contiguous-order")
		last = ht
	}
	verifAssert(last == n, "reader-idle-with-unprocessed-best-chain-block")
	// a recorded block was delivered completely and verified: its coinbase reached the processor
	// (which happens only after the merkle root check), exactly once
	for _, hash := range btm.order {
		verifAssert(spy.coinbase[hash] == 1, "block-recorded-as-processed-without-being-processed-once")
	}
	if verifParam("reorg", 0) == 1 && nondetBool("reorg-after-sync") {
		// the reader is in sync; a heavier fork then replaces blocks that were already processed
		f := pick("fork-height", n) // last common height 0..n-1
		prev := chain[f]
		newChain := append([]bitcoin.Hash32(nil), chain[:f+1]...)
		for i := f + 1; i <= n+1; i++ {
			txs := []*wire.MsgTx{mkTx(1000 + 10*i), mkTx(1000 + 10*i + 1)}
			hd := &wire.BlockHeader{Version: 1, Timestamp: uint32(1600100000 + 600*i), Bits: 0x1d00ffff, Nonce: uint32(500 + i), PrevBlock: prev}
			hd.MerkleRoot = refMerkleRoot([]bitcoin.Hash32{*txs[0].TxHash(), *txs[1].TxHash()})
			if err := repo.ProcessHeader(ctx, hd); err != nil {
				verifAssert(false, "setup-fork-header-refused")
				return
			}
			prev = *hd.BlockHash()
			newChain = append(newChain, prev)
			req.headers[prev] = hd
			req.txs[prev] = txs
		}
		tipNow := repo.LastHash()
		verifAssert(tipNow.Equal(&prev), "setup-fork-did-not-become-best")
		before := len(btm.order)
		m.TriggerBlockSynchronize(ctx)
		m.syncBlocksWait.Wait()
		// every block of the new best chain from the start height is processed, the new ones in
		// ascending order, none of the already recorded ones again
		first := f + 1
		if first < start {
			first = start
		}
		last := first - 1
		for _, hash := range btm.order[before:] {
			ht := -1
			for h := range newChain {
				if newChain[h].Equal(&hash) {
					ht = h
				}
			}
			verifAssert(ht == last+1, "blocks-not-recorded-in-ascending-contiguous-order:after-reorg")
			last = ht
		}
		for h := start; h < len(newChain); h++ {
			verifAssert(btm.done[newChain[h]], "reader-idle-with-unprocessed-best-chain-block:after-reorg")
		}
		verifReach("reorged-after-sync")
	}
	close(interrupt)
	runDone.Wait()
	verifReach("done")
}

// pipeProcessor counts the coinbase calls per block.
type pipeProcessor struct {
	spyProcessor
	coinbase map[bitcoin.Hash32]int
}

func (p *pipeProcessor) ProcessCoinbaseTx(ctx context.Context, blockHash bitcoin.Hash32, tx *wire.MsgTx) error {
	if p.coinbase == nil {
		p.coinbase = map[bitcoin.Hash32]int{}
	}
	p.coinbase[blockHash]++
	return nil
}

// pipeBlockTxs is the processed-marker store; it remembers the order of the records.
type pipeBlockTxs struct {
	done  map[bitcoin.Hash32]bool
	order []bitcoin.Hash32
}

func (b *pipeBlockTxs) FetchBlockTxIDs(ctx context.Context, h bitcoin.Hash32) ([]bitcoin.Hash32, bool, error) {
	return nil, b.done[h], nil
}
func (b *pipeBlockTxs) AppendBlockTxIDs(ctx context.Context, h bitcoin.Hash32, t []bitcoin.Hash32) error {
	b.done[h] = true
	b.order = append(b.order, h)
	return nil
}
