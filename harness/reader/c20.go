package bitcoin_reader

import (
	"fmt"
	"strings"
	"sync"
)

func init() {
	verifHarnesses["VerifC20History"] = VerifC20History
	verifHarnesses["VerifC20LoadBytes"] = VerifC20LoadBytes
	verifHarnesses["VerifC20Prefix"] = VerifC20Prefix
}

var verifAddrs = []string{"", "a", strings.Repeat("x", 300), "\xc3\xbc\xe2\x82\xac:1", "[::ffff:1.2.3.4]:8333"}

// VerifC20History: Add/UpdateScore/UpdateTime/Get/Save+Load/Clear over arbitrary addresses and
// full-range score deltas against a reference map.
func VerifC20History() {
	steps := verifParam("steps", 4)
	store := newVerifStore()
	repo := NewPeerRepository(store, "")
	ctx := ctxbg()
	n := verifParam("addrs", len(verifAddrs))
	nops := verifParam("ops", 6)
	present := make([]bool, n)
	score := make([]int32, n)
	touched := make([]bool, n)
	// what the stored file holds (nil: never saved)
	var savedPresent []bool
	var savedScore []int32
	for s := 0; s < steps; s++ {
		op := pick(fmt.Sprintf("op%d", s), nops)
		k := 0
		if op <= 2 {
			k = pick(fmt.Sprintf("addr%d", s), n)
		}
		switch op {
		case 0:
			added, err := repo.Add(ctx, verifAddrs[k])
			verifAssert(err == nil, "add-returns-error")
			verifAssert(added == !present[k], "add-result-wrong")
			if !present[k] {
				present[k], score[k], touched[k] = true, 0, false
			}
		case 1:
			delta := int32(nondetU32(fmt.Sprintf("delta%d", s)))
			ok := repo.UpdateScore(ctx, verifAddrs[k], delta)
			verifAssert(ok == present[k], "update-score-result-wrong")
			if present[k] {
				score[k] += delta
				touched[k] = true
			}
		case 2:
			ok := repo.UpdateTime(ctx, verifAddrs[k])
			verifAssert(ok == present[k], "update-time-result-wrong")
			if present[k] {
				touched[k] = true
			}
		case 3:
			min := int32(nondetU32(fmt.Sprintf("min%d", s)))
			max := int32(nondetU32(fmt.Sprintf("max%d", s)))
			list, err := repo.Get(ctx, min, max)
			verifAssert(err == nil, "get-returns-error")
			for a := range list {
				for b := 0; b < a; b++ {
					verifAssert(list[a].Address != list[b].Address, "get-returns-address-twice")
				}
			}
			for j := 0; j < n; j++ {
				in := false
				for _, p := range list {
					if p.Address == verifAddrs[j] {
						in = true
						verifAssert(p.Score == score[j], "peer-score-is-not-sum-of-deltas")
					}
				}
				want := present[j] && score[j] >= min && (max == -1 || score[j] <= max)
				verifAssert(in == want, "get-result-not-exactly-the-score-range")
			}
			verifReach("queried")
		case 4:
			if err := repo.Save(ctx); err != nil {
				verifAssert(false, "save-returns-error")
				return
			}
			r2 := NewPeerRepository(store, "")
			if err := r2.Load(ctx); err != nil {
				verifAssert(false, "load-returns-error")
				return
			}
			all, _ := repo.Get(ctx, -2147483648, -1)
			for _, p := range all {
				found := false
				for _, q := range r2.list {
					if q.Address == p.Address {
						found = true
						verifAssert(q.Score == p.Score && q.LastTime == p.LastTime, "save-load-changed-peer")
					}
				}
				verifAssert(found, "save-load-lost-peer")
			}
			verifAssert(len(r2.list) == len(all), "save-load-changed-peer-count")
			repo = r2
			savedPresent = append([]bool(nil), present...)
			savedScore = append([]int32(nil), score...)
			verifReach("reloaded")
		case 5:
			repo.Clear(ctx)
			for j := range present {
				present[j] = false
			}
			verifReach("cleared")
		case 6: // Load into the repository that is in use, from storage in one of several conditions
			full := store.data[peersDefaultPath]
			have := len(full) >= 5
			variant := pick(fmt.Sprintf("stored%d", s), 4)
			for j := range present {
				present[j] = false
			}
			switch {
			case variant == 0 && have: // the file as saved
				for j := range present {
					present[j], score[j] = savedPresent[j], savedScore[j]
				}
			case variant == 1: // no file
				delete(store.data, peersDefaultPath)
				savedPresent, savedScore = nil, nil
			case variant == 2 && have: // cut inside the 5 byte file header
				c := pick(fmt.Sprintf("cut%d", s), 5)
				store.data[peersDefaultPath] = full[:c]
				savedPresent, savedScore = make([]bool, n), make([]int32, n)
			case variant == 3 && have: // a version this code does not know
				store.data[peersDefaultPath] = append([]byte{9}, full[1:]...)
				savedPresent, savedScore = make([]bool, n), make([]int32, n)
			default:
				verifAssume(false)
			}
			repo.Load(ctx) // may report an error; the repository must stay usable either way
			verifReach("loaded-in-place")
		}
		cnt := 0
		for j := range present {
			if present[j] {
				cnt++
			}
		}
		verifAssert(repo.Count() == cnt, "count-is-not-number-of-distinct-addresses")
		verifObserve("step", s, op, k, cnt)
	}
	verifReach("done")
}

// VerifC20LoadBytes: loading any stored bytes completes without crashing and without sizing
// allocations from untrusted lengths.
func VerifC20LoadBytes() {
	maxLen := verifParam("maxlen", 24)
	n := pick("len", maxLen+1)
	store := newVerifStore()
	data := nondetBytes("file", n)
	store.data[peersDefaultPath] = data
	repo := NewPeerRepository(store, "")
	verifSetAllocBudget(n + 64)
	err := repo.Load(ctxbg())
	verifAllocDone()
	verifObserve("load", n, err == nil)
	verifReach("done")
}

// VerifC20Prefix: a saved file cut short at any point loads without crashing, keeping every peer
// that was fully written before the cut.
func VerifC20Prefix() {
	store := newVerifStore()
	repo := NewPeerRepository(store, "")
	ctx := ctxbg()
	count := 1 + pick("peers", 3)
	for k := 0; k < count; k++ {
		repo.Add(ctx, verifAddrs[(k+1)%len(verifAddrs)])
		repo.UpdateScore(ctx, verifAddrs[(k+1)%len(verifAddrs)], int32(nondetU32(fmt.Sprintf("score%d", k))))
	}
	if err := repo.Save(ctx); err != nil {
		verifAssert(false, "save-returns-error")
		return
	}
	full := store.data[peersDefaultPath]
	cut := int(nondetU16("cut"))
	verifAssume(cut <= len(full))
	// record boundaries: 5 byte header, then 4+len+4+4 per peer
	ends := []int{}
	pos := 5
	for _, p := range repo.list {
		pos += 4 + len(p.Address) + 8
		ends = append(ends, pos)
	}
	// concretise the cut only as far as the record boundaries matter (every byte offset is distinct for Load)
	c := cutPoint(cut, len(full))
	store.data[peersDefaultPath] = full[:c]
	r2 := NewPeerRepository(store, "")
	verifSetAllocBudget(len(full) + 64)
	err := r2.Load(ctx)
	verifAllocDone()
	if c >= 5 {
		verifAssert(err == nil, "truncated-file-load-returns-error")
	}
	for k, p := range repo.list {
		if ends[k] <= c {
			found := false
			for _, q := range r2.list {
				if q.Address == p.Address && q.Score == p.Score && q.LastTime == p.LastTime {
					found = true
				}
			}
			verifAssert(found, "fully-written-peer-lost-after-truncation")
		}
	}
	verifObserve("prefix", count, c, len(r2.list))
	verifReach("done")
}

// cutPoint turns the symbolic cut into a concrete offset (forks over every offset).
func cutPoint(cut, n int) int {
	for k := 0; k < n; k++ {
		if cut == k {
			return k
		}
	}
	return n
}

func init() {
	verifHarnesses["VerifC20Concurrent"] = VerifC20Concurrent
}

// VerifC20Concurrent: two callers use the address book at the same time. Under every interleaving
// (bounded preemptions) an address is added once, a score is the sum of the deltas applied, and
// once every Save has returned a fresh Load reproduces the state of the last Save that started
// after all updates had completed.
func VerifC20Concurrent() {
	store := newVerifStore()
	repo := NewPeerRepository(store, "")
	ctx := ctxbg()
	a, b := verifAddrs[1], verifAddrs[4]
	repo.Add(ctx, a)
	var wg sync.WaitGroup
	wg.Add(2)
	d1 := int32(nondetU32("delta1"))
	d2 := int32(nondetU32("delta2"))
	var added1, added2 bool
	scenario := pick("scenario", 4)
	switch scenario {
	case 0: // the same new address from both callers
		go func() { added1, _ = repo.Add(ctx, b); wg.Done() }()
		go func() { added2, _ = repo.Add(ctx, b); wg.Done() }()
	case 1: // a Save racing with an update followed by its own Save
		go func() { repo.Save(ctx); wg.Done() }()
		go func() { repo.UpdateScore(ctx, a, d1); repo.Save(ctx); wg.Done() }()
	case 2: // two updates of one peer
		go func() { repo.UpdateScore(ctx, a, d1); wg.Done() }()
		go func() { repo.UpdateScore(ctx, a, d2); wg.Done() }()
	case 3: // a Save racing with Clear followed by Add and Save
		go func() { repo.Save(ctx); wg.Done() }()
		go func() { repo.Clear(ctx); repo.Add(ctx, b); repo.Save(ctx); wg.Done() }()
	}
	wg.Wait()
	verifObserve("scenario", scenario)
	all, _ := repo.Get(ctx, -2147483648, -1)
	scoreOf := func(l PeerList, addr string) (int32, int) {
		n := 0
		var sc int32
		for _, p := range l {
			if p.Address == addr {
				n++
				sc = p.Score
			}
		}
		return sc, n
	}
	reload := func() PeerList {
		r2 := NewPeerRepository(store, "")
		if err := r2.Load(ctx); err != nil {
			verifAssert(false, "load-returns-error")
		}
		return r2.list
	}
	switch scenario {
	case 0:
		verifAssert(added1 != added2, "address-added-by-both-or-neither-caller")
		_, n := scoreOf(all, b)
		verifAssert(n == 1 && repo.Count() == 2, "address-held-twice-after-concurrent-add")
	case 1:
		sc, n := scoreOf(all, a)
		verifAssert(n == 1 && sc == d1, "peer-score-is-not-sum-of-deltas")
		ssc, sn := scoreOf(reload(), a)
		verifAssert(sn == 1 && ssc == d1, "stored-file-older-than-last-save-started-after-the-update")
	case 2:
		sc, n := scoreOf(all, a)
		verifAssert(n == 1 && sc == d1+d2, "peer-score-is-not-sum-of-deltas")
	case 3:
		l := reload()
		_, na := scoreOf(l, a)
		_, nb := scoreOf(l, b)
		verifAssert(na == 0 && nb == 1 && len(l) == 1, "stored-file-older-than-last-save-started-after-the-update")
	}
	verifReach("done")
}
