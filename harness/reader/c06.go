package bitcoin_reader

import (
	"context"
	"fmt"
	"sync"
	"time"

	"github.com/google/uuid"
	"github.com/tokenized/pkg/bitcoin"
	"github.com/tokenized/pkg/wire"
)

func init() {
	verifHarnesses["VerifC06TxManager"] = VerifC06TxManager
}

type countingProcessor struct {
	spyProcessor
	processed map[bitcoin.Hash32]int
	saved     map[bitcoin.Hash32]int
	relevantF func(bitcoin.Hash32) bool
}

func (p *countingProcessor) ProcessTx(ctx context.Context, tx *wire.MsgTx) (bool, error) {
	h := *tx.TxHash()
	p.processed[h]++
	return p.relevantF(h), nil
}

func (p *countingProcessor) SaveTx(ctx context.Context, tx *wire.MsgTx) error {
	p.saved[*tx.TxHash()]++
	return nil
}

// txWithBucket finds a transaction whose txid starts with the wanted byte (same map bucket).
func txWithBucket(seed int, want int) *wire.MsgTx {
	for k := 0; k < 4096; k++ {
		tx := mkTx(seed*5000 + k)
		if want < 0 || int(tx.TxHash()[0]) == want {
			return tx
		}
	}
	return mkTx(seed)
}

// VerifC06TxManager: several peers announce and deliver the same transactions concurrently; each
// transaction reaches the processor exactly once, is requested from one peer at a time, becomes
// requestable from the other announcers after the timeout, and is never requested after delivery.
func VerifC06TxManager() {
	peers := verifParam("peers", 2)
	slots := verifParam("slots", 2)
	timeout := 40 * time.Millisecond
	m := NewTxManager(timeout)
	proc := &countingProcessor{processed: map[bitcoin.Hash32]int{}, saved: map[bitcoin.Hash32]int{}}
	rel := nondetBool("relevant")
	proc.relevantF = func(bitcoin.Hash32) bool { return rel }
	m.SetTxProcessor(proc)
	m.SetTxSaver(proc)
	ctx := ctxbg()
	interrupt := make(chan interface{})

	tx0 := txWithBucket(1, -1)
	var tx1 *wire.MsgTx
	if verifParam("samebucketonly", 0) == 1 || nondetBool("same-bucket") {
		tx1 = txWithBucket(2, int(tx0.TxHash()[0]))
	} else {
		tx1 = txWithBucket(2, int(tx0.TxHash()[0])^1)
	}
	txs := []*wire.MsgTx{tx0, tx1}
	ids := make([]uuid.UUID, peers)
	for p := range ids {
		ids[p] = uuid.New()
	}

	var runDone sync.WaitGroup
	runDone.Add(1)
	go func() {
		m.Run(ctx)
		runDone.Done()
	}()

	// phase 1: concurrent announcements and deliveries, all inside one timeout window
	type opRec struct {
		announce bool
		tx       int
		result   bool
	}
	ops := make([][]opRec, peers)
	tStart := verifClock() // no request is older than this
	var wg sync.WaitGroup
	for p := 0; p < peers; p++ {
		for s := 0; s < slots; s++ {
			k := pick(fmt.Sprintf("op-%d-%d", p, s), 4)
			ops[p] = append(ops[p], opRec{announce: k < 2, tx: k % 2})
		}
	}
	for p := 0; p < peers; p++ {
		wg.Add(1)
		go func(p int) {
			for s := range ops[p] {
				o := &ops[p][s]
				if o.announce {
					r, _ := m.AddTxID(ctx, ids[p], *txs[o.tx].TxHash())
					o.result = r
				} else {
					m.AddTx(ctx, interrupt, ids[p], txs[o.tx])
				}
			}
			wg.Done()
		}(p)
	}
	wg.Wait()
	tEnd := verifClock() // no request is younger than this
	verifSettle() // the Run loop drains what was delivered before the retry polls start (no virtual time passes)

	delivered := []bool{false, false}
	announcedBy := [][]bool{make([]bool, peers), make([]bool, peers)}
	for p := range ops {
		for _, o := range ops[p] {
			if !o.announce {
				delivered[o.tx] = true
			} else {
				announcedBy[o.tx][p] = true
			}
		}
	}
	for t := range txs {
		trues := 0
		for p := range ops {
			for _, o := range ops[p] {
				if o.announce && o.tx == t && o.result {
					trues++
				}
			}
		}
		verifAssert(trues <= 1, "transaction-requested-from-more-than-one-peer-at-once")
	}

	// phase 2: the request window passes (or not quite)
	expired := false
	switch pick("window", 3) {
	case 0: // well inside the window
		verifAdvanceClock(int64(timeout) / 4)
	case 1: // the window has passed
		expired = true
		verifAdvanceClock(int64(timeout))
	case 2: // one nanosecond before the window ends: only meaningful under the virtual clock
		if !verifInEngine() {
			verifAssume(false) // not reproducible with a real clock: the native run stops here
		}
		verifAdvanceClock(int64(timeout) - 1)
	}
	// under the virtual clock the window is exact; natively it is measured, and a run whose real
	// timing falls between "surely inside" and "surely passed" is not judged
	now := verifClock()
	surelyInside := now-tStart < int64(timeout)
	surelyPassed := now-tEnd >= int64(timeout)
	if expired != surelyPassed || expired == surelyInside {
		verifAssume(false)
	}
	// retry polls by every peer, in a chosen order
	first := pick("poll-first", peers)
	requestedAgain := []int{0, 0}
	for k := 0; k < peers; k++ {
		p := (first + k) % peers
		list, err := m.GetTxRequests(ctx, ids[p], 100)
		verifAssert(err == nil, "get-tx-requests-error")
		for _, h := range list {
			for t := range txs {
				if h.Equal(txs[t].TxHash()) {
					requestedAgain[t]++
					verifAssert(!delivered[t], "transaction-requested-after-delivery")
					verifAssert(expired, "transaction-requested-again-before-timeout")
					verifAssert(announcedBy[t][p], "transaction-requested-from-peer-that-did-not-announce-it")
				}
			}
		}
	}
	for t := range txs {
		verifAssert(requestedAgain[t] <= 1, "transaction-requested-from-more-than-one-peer-in-one-window")
		if expired && !delivered[t] {
			// peers that announced it and were not asked the first time can now be asked
			waiting := 0
			firstAsked := -1
			for p := range ops {
				for _, o := range ops[p] {
					if o.announce && o.tx == t && o.result {
						firstAsked = p
					}
				}
			}
			for p := 0; p < peers; p++ {
				if announcedBy[t][p] && p != firstAsked {
					waiting++
				}
			}
			if waiting > 0 {
				verifAssert(requestedAgain[t] == 1, "timed-out-transaction-not-requestable-from-other-announcer")
				verifReach("re-requested")
			}
		}
	}
	// late announcement after delivery is never a request
	for t := range txs {
		if delivered[t] {
			r, _ := m.AddTxID(ctx, ids[0], *txs[t].TxHash())
			verifAssert(!r, "transaction-requested-after-delivery")
		}
	}

	m.Stop(ctx)
	runDone.Wait()
	for t := range txs {
		h := *txs[t].TxHash()
		want := 0
		if delivered[t] {
			want = 1
		}
		verifAssert(proc.processed[h] == want, "transaction-not-processed-exactly-once")
		if rel {
			verifAssert(proc.saved[h] == want, "relevant-transaction-not-saved-exactly-once")
		} else {
			verifAssert(proc.saved[h] == 0, "irrelevant-transaction-saved")
		}
	}
	verifObserve("c06", delivered[0], delivered[1], expired, requestedAgain[0], requestedAgain[1])
	verifReach("done")
}

func init() {
	verifHarnesses["VerifC06Retry"] = VerifC06Retry
}

// VerifC06Retry (sequential): 1-3 transactions in one map bucket are announced by peer A (asked)
// and by peers B and C (remembered); A never delivers. After each request window B polls for
// retries with a symbolic maximum and C polls at the same instant: every transaction comes back
// for B and for C exactly once over the polls, none is lost, none is handed out twice to the same
// peer, and none is handed to C while the request B was just given is still outstanding.
func VerifC06Retry() {
	timeout := 40 * time.Millisecond
	m := NewTxManager(timeout)
	ctx := ctxbg()
	a, b, c := uuid.New(), uuid.New(), uuid.New()
	n := 1 + pick("txs", 3)
	first := txWithBucket(1, -1)
	txs := []*wire.MsgTx{first}
	for k := 1; k < n; k++ {
		txs = append(txs, txWithBucket(1+k, int(first.TxHash()[0])))
	}
	for _, tx := range txs {
		r, _ := m.AddTxID(ctx, a, *tx.TxHash())
		verifAssert(r, "first-announcement-not-requested")
	}
	for _, tx := range txs {
		r, _ := m.AddTxID(ctx, b, *tx.TxHash())
		verifAssert(!r, "second-announcement-requested-while-outstanding")
		r, _ = m.AddTxID(ctx, c, *tx.TxHash())
		verifAssert(!r, "third-announcement-requested-while-outstanding")
	}
	got := make([]int, n)
	gotC := make([]int, n)
	max := 1 + pick("max", 3)
	polls := 0
	for round := 0; round < 2*n+1; round++ {
		verifAdvanceClock(int64(timeout))
		list, err := m.GetTxRequests(ctx, b, max)
		verifAssert(err == nil, "get-tx-requests-error")
		polls++
		nowB := make([]bool, n)
		for _, h := range list {
			for k := range txs {
				if h.Equal(txs[k].TxHash()) {
					got[k]++
					nowB[k] = true
				}
			}
		}
		// the third announcer polls at the same instant: what B was just asked for is outstanding
		listC, err := m.GetTxRequests(ctx, c, max)
		verifAssert(err == nil, "get-tx-requests-error")
		for _, h := range listC {
			for k := range txs {
				if h.Equal(txs[k].TxHash()) {
					gotC[k]++
					verifAssert(!nowB[k], "transaction-requested-from-two-peers-in-one-request-window")
				}
			}
		}
	}
	for k := range txs {
		verifAssert(got[k] >= 1, "timed-out-transaction-never-offered-to-other-announcer")
		verifAssert(got[k] <= 1, "transaction-offered-twice-to-the-same-announcer")
		verifAssert(gotC[k] >= 1, "timed-out-transaction-never-offered-to-third-announcer")
		verifAssert(gotC[k] <= 1, "transaction-offered-twice-to-the-same-announcer")
	}
	verifObserve("retry", n, max, polls)
	verifReach("done")
}

func init() {
	verifHarnesses["VerifC06BigInv"] = VerifC06BigInv
}

// VerifC06BigInv: one inventory announcing more transactions than fit into one getdata message:
// every announced transaction is requested from the announcing peer exactly once, in getdata
// messages that are what was queued when they are finally written.
func VerifC06BigInv() {
	e := newNetEnv(true)
	e.makeReady()
	n := wire.MaxInvPerMsg + verifParam("extra", 3)
	payload := make([]byte, 0, 9+36*n)
	payload = append(payload, 0xfd, byte(n), byte(n>>8)) // canonical varint for 50001..65535
	for i := 0; i < n; i++ {
		var entry [36]byte
		entry[0] = byte(wire.InvTypeTx)
		entry[4], entry[5], entry[6], entry[7] = byte(i), byte(i>>8), byte(i>>16), 0x77
		payload = append(payload, entry[:]...)
	}
	e.conn.in = frameMsg(wire.CmdInv, payload, false)
	err := e.node.handleMessage(e.ctx, e.conn)
	verifAssert(err == nil, "big-inventory-fails")
	// the send thread writes the queued messages after the handler has returned
	seen := make(map[bitcoin.Hash32]int, n)
	msgs := 0
	for _, m := range e.drainOutgoing() {
		gd, ok := m.(*wire.MsgGetData)
		if !ok {
			continue
		}
		msgs++
		verifAssert(len(gd.InvList) <= wire.MaxInvPerMsg, "getdata-larger-than-the-protocol-allows")
		for _, iv := range gd.InvList {
			seen[iv.Hash]++
		}
	}
	verifObserve("big-inv", n, msgs, len(seen))
	missing, twice := 0, 0
	for i := 0; i < n; i++ {
		var h bitcoin.Hash32
		h[0], h[1], h[2], h[3] = byte(i), byte(i>>8), byte(i>>16), 0x77
		switch seen[h] {
		case 0:
			missing++
		case 1:
		default:
			twice++
		}
	}
	verifAssert(missing == 0, "announced-transaction-never-requested")
	verifAssert(twice == 0, "transaction-requested-twice-from-one-peer")
	verifReach("done")
}

func init() {
	verifHarnesses["VerifC06SaveFailure"] = VerifC06SaveFailure
}

// failingSaver counts like countingProcessor and lets the k-th SaveTx call fail.
type failingSaver struct {
	countingProcessor
	failAt int
	saves  int
}

func (p *failingSaver) SaveTx(ctx context.Context, tx *wire.MsgTx) error {
	k := p.saves
	p.saves++
	if k == p.failAt {
		return errSpy
	}
	return p.countingProcessor.SaveTx(ctx, tx)
}

// VerifC06SaveFailure: delivered transactions reach the processor exactly once also when the
// processor's answers vary and saving a relevant transaction fails at any point.
func VerifC06SaveFailure() {
	m := NewTxManager(40 * time.Millisecond)
	proc := &failingSaver{failAt: pick("save-fails-at", 4) - 1} // -1: never
	proc.processed = map[bitcoin.Hash32]int{}
	proc.saved = map[bitcoin.Hash32]int{}
	rel := []bool{nondetBool("relevant0"), nondetBool("relevant1"), nondetBool("relevant2")}
	txs := []*wire.MsgTx{mkTx(21), mkTx(22), mkTx(23)}
	proc.relevantF = func(h bitcoin.Hash32) bool {
		for i, tx := range txs {
			if h.Equal(tx.TxHash()) {
				return rel[i]
			}
		}
		return false
	}
	m.SetTxProcessor(proc)
	m.SetTxSaver(proc)
	ctx := ctxbg()
	interrupt := make(chan interface{})
	done := make(chan error, 1)
	go func() { done <- m.Run(ctx) }()
	id0, id1 := uuid.New(), uuid.New()
	for _, tx := range txs {
		m.AddTxID(ctx, id0, *tx.TxHash())
		m.AddTx(ctx, interrupt, id0, tx)
		m.AddTx(ctx, interrupt, id1, tx) // a second peer delivers it too
	}
	verifSettle()
	for i, tx := range txs {
		n := proc.processed[*tx.TxHash()]
		verifAssert(n <= 1, "transaction-processed-more-than-once")
		if proc.failAt == -1 {
			verifAssert(n == 1, "transaction-not-processed-exactly-once")
			want := 0
			if rel[i] {
				want = 1
			}
			verifAssert(proc.saved[*tx.TxHash()] == want, "relevant-transaction-not-saved-exactly-once")
		}
	}
	verifObserve("save-failure", proc.failAt)
	verifReach("done")
}
