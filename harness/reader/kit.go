package bitcoin_reader

import (
	"context"
	"sort"
	"sync"

	"github.com/tokenized/pkg/storage"
)

var verifIdent [256]int

func init() {
	for i := range verifIdent {
		verifIdent[i] = i
	}
}

// pick forks over 0..n-1.
func pick(name string, n int) int {
	v := nondetU8(name)
	verifAssume(int(v) < n)
	return verifIdent[v]
}

func ctxbg() context.Context { return context.Background() }

// verifStore: in-memory storage with copy-on-read/write semantics.
type verifStore struct {
	// like the real storage back ends the store synchronises its own accesses, which also makes
	// every storage call a scheduling point for concurrent callers
	lock sync.Mutex
	data map[string][]byte
}

func newVerifStore() *verifStore { return &verifStore{data: map[string][]byte{}} }

func (s *verifStore) Read(ctx context.Context, key string) ([]byte, error) {
	s.lock.Lock()
	defer s.lock.Unlock()
	b, ok := s.data[key]
	if !ok {
		return nil, storage.ErrNotFound
	}
	c := make([]byte, len(b))
	copy(c, b)
	return c, nil
}

func (s *verifStore) Write(ctx context.Context, key string, body []byte, o *storage.Options) error {
	c := make([]byte, len(body))
	copy(c, body)
	s.lock.Lock()
	defer s.lock.Unlock()
	s.data[key] = c
	return nil
}

func (s *verifStore) Remove(ctx context.Context, key string) error {
	s.lock.Lock()
	defer s.lock.Unlock()
	if _, ok := s.data[key]; !ok {
		return storage.ErrNotFound
	}
	delete(s.data, key)
	return nil
}

func (s *verifStore) Search(ctx context.Context, q map[string]string) ([][]byte, error) {
	return nil, nil
}
func (s *verifStore) Clear(ctx context.Context, q map[string]string) error { return nil }
func (s *verifStore) List(ctx context.Context, p string) ([]string, error) {
	var out []string
	for k := range s.data {
		out = append(out, k)
	}
	sort.Strings(out)
	return out, nil
}
func (s *verifStore) Copy(ctx context.Context, from, to string) error { return nil }
