package bitcoin_reader

import (
	"context"
	"fmt"

	"github.com/pkg/errors"
	"github.com/tokenized/pkg/bitcoin"
	"github.com/tokenized/pkg/merkle_proof"
	"github.com/tokenized/pkg/wire"
)

func init() {
	verifHarnesses["VerifC04Block"] = VerifC04Block
}

type spyCall struct {
	kind   string
	txid   bitcoin.Hash32
	height int
	proof  *merkle_proof.MerkleProof
}

// spyProcessor records every call; relevance and failures are chosen by the harness.
type spyProcessor struct {
	relevant []bool // by ProcessTx call order
	failAt   int    // call index (over all fallible calls) that returns an error; -1 never
	calls    int
	log      []spyCall
	processed int
}

var errSpy = errors.New("spy failure")

func (p *spyProcessor) fail() bool {
	f := p.calls == p.failAt
	p.calls++
	return f
}

func (p *spyProcessor) ProcessTx(ctx context.Context, tx *wire.MsgTx) (bool, error) {
	i := p.processed
	p.processed++
	p.log = append(p.log, spyCall{kind: "process", txid: *tx.TxHash()})
	if p.fail() {
		return false, errSpy
	}
	return i < len(p.relevant) && p.relevant[i], nil
}
func (p *spyProcessor) CancelTx(ctx context.Context, txid bitcoin.Hash32) error { return nil }
func (p *spyProcessor) AddTxConflict(ctx context.Context, txid, c bitcoin.Hash32) error {
	return nil
}
func (p *spyProcessor) ConfirmTx(ctx context.Context, txid bitcoin.Hash32, height int,
	proof *merkle_proof.MerkleProof) error {
	p.log = append(p.log, spyCall{kind: "confirm", txid: txid, height: height, proof: proof})
	if p.fail() {
		return errSpy
	}
	return nil
}
func (p *spyProcessor) UpdateTxChainDepth(ctx context.Context, txid bitcoin.Hash32, d uint32) error {
	return nil
}
func (p *spyProcessor) ProcessCoinbaseTx(ctx context.Context, blockHash bitcoin.Hash32, tx *wire.MsgTx) error {
	p.log = append(p.log, spyCall{kind: "coinbase", txid: *tx.TxHash()})
	if p.fail() {
		return errSpy
	}
	return nil
}

type spyBlockTxManager struct {
	p        *spyProcessor
	appended [][]bitcoin.Hash32
}

func (m *spyBlockTxManager) FetchBlockTxIDs(ctx context.Context, h bitcoin.Hash32) ([]bitcoin.Hash32, bool, error) {
	return nil, false, nil
}
func (m *spyBlockTxManager) AppendBlockTxIDs(ctx context.Context, h bitcoin.Hash32, txids []bitcoin.Hash32) error {
	m.appended = append(m.appended, txids)
	m.p.log = append(m.p.log, spyCall{kind: "append"})
	if m.p.fail() {
		return errSpy
	}
	return nil
}

func mkTx(i int) *wire.MsgTx {
	tx := wire.NewMsgTx(1)
	tx.LockTime = uint32(1000 + i)
	return tx
}

func refPair(l, r bitcoin.Hash32) bitcoin.Hash32 {
	b := make([]byte, 0, 64)
	b = append(b, l[:]...)
	b = append(b, r[:]...)
	var out bitcoin.Hash32
	copy(out[:], bitcoin.DoubleSha256(b))
	return out
}

func refMerkleRoot(leaves []bitcoin.Hash32) bitcoin.Hash32 {
	if len(leaves) == 0 {
		return bitcoin.Hash32{}
	}
	level := append([]bitcoin.Hash32(nil), leaves...)
	for len(level) > 1 {
		if len(level)%2 == 1 {
			level = append(level, level[len(level)-1])
		}
		next := make([]bitcoin.Hash32, len(level)/2)
		for k := range next {
			next[k] = refPair(level[2*k], level[2*k+1])
		}
		level = next
	}
	return level[0]
}

// VerifC04Block: confirmations (and the coinbase call and the block's txid record) happen only
// for a block whose header hashes to the requested hash, whose announced count was delivered in
// full and whose merkle root matches; each confirmation carries a verifying proof for that txid.
func VerifC04Block() {
	maxTx := verifParam("maxtx", 4)
	n := 1 + pick("ntx", maxTx)
	ctx := ctxbg()
	// the block's real content
	var content []*wire.MsgTx
	var txids []bitcoin.Hash32
	for i := 0; i < n; i++ {
		tx := mkTx(i)
		content = append(content, tx)
		txids = append(txids, *tx.TxHash())
	}
	header := &wire.BlockHeader{Version: 1, Timestamp: 1600000000, Bits: 0x1d00ffff, Nonce: 7}
	header.MerkleRoot = refMerkleRoot(txids)

	// corruption of what is delivered
	delivered := append([]*wire.MsgTx(nil), content...)
	announced := uint64(n)
	corruption := pick("corruption", 9)
	wrongBlock := false
	switch corruption {
	case 0: // none
	case 1: // a transaction dropped
		k := pick("drop", n)
		delivered = append(append([]*wire.MsgTx(nil), delivered[:k]...), delivered[k+1:]...)
		if nondetBool("announce-shorter") {
			announced = uint64(n - 1)
		}
	case 2: // a transaction added
		delivered = append(delivered, mkTx(100))
		if nondetBool("announce-longer") {
			announced = uint64(n + 1)
		}
	case 3: // two transactions swapped
		if n < 2 {
			verifAssume(false)
		}
		a := pick("swap", n-1)
		delivered[a], delivered[a+1] = delivered[a+1], delivered[a]
	case 4: // a transaction altered
		k := pick("alter", n)
		delivered[k] = mkTx(200 + k)
	case 5: // announced count differs from what is delivered
		announced = uint64(nondetU8("announced"))
		verifAssume(announced != uint64(n))
	case 6: // stream cut: only a prefix arrives
		k := pick("cut", n)
		delivered = delivered[:k]
	case 7: // another block than requested
		wrongBlock = true
	case 8: // the last transaction delivered twice (same merkle root for odd widths)
		delivered = append(delivered, delivered[len(delivered)-1])
		announced = uint64(n + 1)
	}
	requested := *header.BlockHash()
	if wrongBlock {
		requested[0] ^= 0xff
	}
	spy := &spyProcessor{failAt: -1}
	for i := range delivered {
		spy.relevant = append(spy.relevant, nondetBool(fmt.Sprintf("relevant%d", i)))
	}
	if nondetBool("inject-failure") {
		spy.failAt = int(nondetU8("fail-at"))
		verifAssume(spy.failAt < 2*len(delivered)+3)
	}
	btm := &spyBlockTxManager{p: spy}
	bd := NewBlockDownloader(spy, btm, requested, 700001)

	ch := make(chan *wire.MsgTx, len(delivered)+1)
	for _, tx := range delivered {
		ch <- tx
	}
	close(ch)
	herr := bd.HandleBlock(ctx, header, announced, ch)
	var cerr error
	gotComplete := false
	select {
	case cerr = <-bd.Complete:
		gotComplete = true
	default:
	}
	verifAssert(gotComplete, "no-completion-signal")
	select {
	case <-bd.Complete:
		verifAssert(false, "second-completion-signal")
	default:
	}

	// what the processor was told
	tag := ""
	if corruption == 8 {
		// same merkle root as the committed content (CVE-2012-2459 shape): tracked separately
		tag = ":last-transaction-delivered-twice"
	}
	intact := corruption == 0
	sideEffects := false
	var confirms []spyCall
	coinbase, appends := 0, 0
	for _, c := range spy.log {
		switch c.kind {
		case "confirm":
			confirms = append(confirms, c)
			sideEffects = true
		case "coinbase":
			coinbase++
			sideEffects = true
		case "append":
			appends++
			sideEffects = true
		}
	}
	verifObserve("block", n, corruption, len(delivered), announced, len(confirms), coinbase, appends, cerr == nil, herr == nil)
	if sideEffects {
		verifReach("confirmed")
		verifAssert(!wrongBlock, "confirmation-for-a-block-other-than-requested")
		verifAssert(uint64(len(delivered)) == announced, "confirmation-although-announced-count-not-received")
		var got []bitcoin.Hash32
		for _, tx := range delivered {
			got = append(got, *tx.TxHash())
		}
		root := refMerkleRoot(got)
		verifAssert(root.Equal(&header.MerkleRoot), "confirmation-although-merkle-root-differs")
		verifAssert(intact, fmt.Sprintf("confirmation-for-corrupted-block:corruption-%d%s", corruption, tag))
	}
	if cerr == nil && gotComplete {
		verifReach("completed-ok")
		verifAssert(intact && spy.failAt == -1 || intact && spy.failAt >= spy.calls, "completed-without-error-although-not-fully-verified"+tag)
		// confirmations = relevant txs, once each, in block order, with verifying proofs
		want := []int{}
		for i := range delivered {
			if spy.relevant[i] {
				want = append(want, i)
			}
		}
		verifAssert(len(confirms) == len(want), "confirmation-count-differs-from-relevant-count")
		verifAssert(coinbase == 1 && appends == 1, "coinbase-or-txid-record-not-exactly-once")
		for k := 0; k < len(confirms) && k < len(want); k++ {
			c := confirms[k]
			txid := *delivered[want[k]].TxHash()
			verifAssert(c.txid.Equal(&txid), "confirmations-not-in-block-order")
			verifAssert(c.height == 700001, "confirmation-height-wrong")
			if c.proof == nil || c.proof.BlockHeader == nil {
				verifAssert(false, "confirmation-without-proof-header")
				continue
			}
			verifAssert(c.proof.Verify() == nil, "confirmation-proof-does-not-verify"+tag)
			verifAssert(c.proof.BlockHeader.BlockHash().Equal(&requested), "confirmation-proof-for-other-header")
			ptx := c.proof.GetTxID()
			verifAssert(ptx != nil && ptx.Equal(&txid), "confirmation-proof-for-other-txid")
			verifAssert(c.proof.Index == want[k], "confirmation-proof-index-wrong")
		}
		if len(btm.appended) == 1 {
			verifAssert(len(btm.appended[0]) == len(want), "recorded-txids-differ-from-relevant")
		}
	} else {
		verifReach("completed-with-error")
		if spy.failAt == -1 && intact {
			verifAssert(false, "intact-block-not-completed")
		}
	}
	verifReach("done")
}
