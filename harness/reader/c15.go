package bitcoin_reader

import (
	"bytes"
	"fmt"
	"time"

	"github.com/tokenized/bitcoin_reader/headers"
	"github.com/tokenized/pkg/bitcoin"
	"github.com/tokenized/pkg/wire"
)

func init() {
	verifHarnesses["VerifC15Bytes"] = VerifC15Bytes
}

var c15Commands = []string{
	wire.CmdVersion, wire.CmdVerAck, wire.CmdHeaders, wire.CmdProtoconf, wire.CmdPing, wire.CmdPong,
	wire.CmdReject, wire.CmdAddr, wire.CmdGetAddr, wire.CmdInv, wire.CmdTx, wire.CmdBlock, "xyzzy",
}

// c15Store is a minimal in-memory store for the real header repository.
func realHeaders() *headers.Repository {
	cfg := headers.DefaultConfig()
	repo := headers.NewRepository(cfg, newVerifStore())
	repo.InitializeWithGenesis()
	return repo
}

// VerifC15Bytes: one arbitrary message (symbolic header fields, symbolic payload, stream ending at
// any point) at any stage of the session never crashes the process, in any goroutine, and never
// sizes an allocation from a declared length far beyond what was received.
func VerifC15Bytes() {
	maxPayload := verifParam("maxpayload", 12)
	symCmd := verifParam("symcmd", 0) // number of free leading command bytes in the extra case (0: case absent)
	ncmd := len(c15Commands)
	if symCmd > 0 {
		ncmd++
	}
	cmdSel := pick("command", ncmd)
	cmdName := ""
	if cmdSel < len(c15Commands) {
		cmdName = c15Commands[cmdSel]
	}
	// 0: before handshake, 1: handshake done (verifying), 2: ready. Only the headers handler
	// distinguishes 0 from 1.
	stage := 2 * pick("stage", 2)
	if cmdName == wire.CmdHeaders && stage == 0 && nondetBool("handshake-done") {
		stage = 1
	}
	// options that only matter for some commands are only varied there
	withTxm := true
	if cmdName == wire.CmdInv || cmdName == wire.CmdTx {
		withTxm = nondetBool("with-tx-manager")
	}
	e := newNetEnv(withTxm)
	if cmdName == wire.CmdHeaders && stage == 2 {
		// peer supplied headers go through the real ProcessHeader (difficulty checks on)
		e.node.headers = realHeaders()
	}
	if cmdName == wire.CmdHeaders && nondetBool("with-header-handler") {
		// an additional header handler (as the node manager installs) reads the same message through
		// a waiting buffer, in a thread of its own
		e.node.SetHeaderHandler(func(ctx contextT, h *wire.MessageHeader, r readerT) error {
			return DiscardInput(r, h.Length)
		})
	}
	switch stage {
	case 1:
		e.node.handshakeIsComplete.Store(true)
	case 2:
		e.makeReady()
		if cmdName == wire.CmdBlock && nondetBool("block-requested") {
			var want bitcoin.Hash32
			want[0] = 0x42
			e.node.RequestBlock(e.ctx, want, func(ctx contextT, hd *wire.BlockHeader, c uint64, ch <-chan *wire.MsgTx) error {
				for range ch {
				}
				return nil
			}, func(contextT) {})
			e.drainOutgoing()
		}
	}

	avail := pick("payload-bytes", maxPayload+1)
	payload := nondetBytes("payload", avail)
	extended := nondetBool("extended")
	var cmd [12]byte
	if cmdSel < len(c15Commands) {
		copy(cmd[:], c15Commands[cmdSel])
	} else {
		copy(cmd[:], nondetBytes("command-bytes", symCmd))
	}

	hdr := make([]byte, 24)
	putU32(hdr, uint32(bitcoin.MainNet))
	var stream []byte
	if !extended {
		copy(hdr[4:16], cmd[:])
		length := nondetU32("declared-length")
		// stated cut: declared lengths between what arrived (+2) and 2^31 behave like "more than arrived"
		verifAssume(length <= uint32(avail)+2 || length >= 1<<31)
		putU32(hdr[16:], length)
		if nondetBool("checksum-consistent") {
			c := checksum4(payload)
			copy(hdr[20:], c[:])
		} else {
			copy(hdr[20:], nondetBytes("checksum", 4))
		}
		stream = append(hdr, payload...)
	} else {
		copy(hdr[4:16], wire.CmdExtended)
		putU32(hdr[16:], nondetU32("outer-length"))
		ext := make([]byte, 20)
		copy(ext[:12], cmd[:])
		length := nondetU64("declared-length64")
		verifAssume(length <= uint64(avail)+2 || length >= 1<<31)
		putU64(ext[12:], length)
		stream = append(append(hdr, ext...), payload...)
	}
	// the stream may end anywhere
	// the stream may end anywhere in the variable part; inside the fixed 24-byte header only the
	// field boundaries are tried (stated cut: readHeader treats every short read alike)
	cut := nondetU8("stream-ends-at")
	verifAssume(int(cut) <= len(stream))
	verifAssume(cut >= 24 || cut == 0 || cut == 4 || cut == 16 || cut == 20)
	e.conn.in = stream[:verifIdent[cut]]

	verifSetAllocBudget(len(stream) + 65536)
	err := e.node.handleMessage(e.ctx, e.conn)
	left := verifQuiesce()
	verifAllocDone()
	verifObserve("bytes", stage, extended, cmdSel, avail, len(e.conn.in), err == nil)
	verifAssert(left == 0, "goroutine-left-blocked-after-message")
	verifReach("done")
}


func init() {
	verifHarnesses["VerifC15Headers"] = VerifC15Headers
}

// VerifC15Headers: a headers message with one fully symbolic 80-byte header (any bits, timestamp,
// parent) delivered to a ready node backed by the real header repository never crashes the process.
func VerifC15Headers() {
	e := newNetEnv(true)
	e.node.headers = realHeaders()
	e.makeReady()
	count := pick("count", verifParam("maxheaders", 1)+1)
	payload := []byte{byte(count)}
	for i := 0; i < count; i++ {
		payload = append(payload, nondetBytes("header", 80)...)
		payload = append(payload, nondetU8("txcount"))
	}
	e.conn.in = frameMsg(wire.CmdHeaders, payload, false)
	err := e.node.handleMessage(e.ctx, e.conn)
	left := verifQuiesce()
	verifObserve("headers", count, err == nil)
	verifAssert(left == 0, "goroutine-left-blocked-after-message")
	verifReach("done")
}

func init() {
	verifHarnesses["VerifC15Block"] = VerifC15Block
}

// VerifC15Block: the peer answers a pending block request with the requested header followed by
// an arbitrary transaction count and arbitrary (hostile, truncated) transaction bytes, in classic or
// extended framing: the process never crashes and nothing stays blocked.
func VerifC15Block() {
	maxBytes := verifParam("maxtxbytes", 6)
	e := newNetEnv(true)
	e.makeReady()
	header := &wire.BlockHeader{Version: 1, Timestamp: 1600000000, Bits: 0x1d00ffff, Nonce: 11}
	hash := *header.BlockHash()
	handlerErr := nondetBool("handler-fails")
	e.node.RequestBlock(e.ctx, hash, func(ctx contextT, hd *wire.BlockHeader, c uint64, ch <-chan *wire.MsgTx) error {
		for range ch {
		}
		if handlerErr {
			return ErrWrongBlock
		}
		return nil
	}, func(contextT) {})
	e.drainOutgoing()
	var payload []byte
	{
		var buf bytesBuffer
		header.Serialize(&buf)
		payload = buf.Bytes()
	}
	// tx count: one byte varint (0..252) or a multi-byte form chosen by the solver
	payload = append(payload, nondetU8("txcount"))
	n := pick("txbytes", maxBytes+1)
	payload = append(payload, nondetBytes("txdata", n)...)
	e.conn.in = frameMsg(wire.CmdBlock, payload, nondetBool("extended"))
	verifSetAllocBudget(len(e.conn.in) + 65536)
	err := e.node.handleMessage(e.ctx, e.conn)
	left := verifQuiesce()
	verifAllocDone()
	verifObserve("block", n, err == nil)
	verifAssert(left == 0, "goroutine-left-blocked-after-message")
	verifReach("done")
}

type bytesBuffer = bytes.Buffer

func init() {
	verifHarnesses["VerifC15Session"] = VerifC15Session
}

// VerifC15Session: a whole session of the real node (read, send, ping and handshake threads) over
// a scripted connection: the peer sends a few messages that make the node reply and then closes,
// while the manager may stop the node at any moment. Under every interleaving (bounded
// preemptions) no goroutine panics and run returns with the node stopped.
func VerifC15Session() {
	nmsg := verifParam("messages", 1)
	e := newNetEnv(true)
	var in []byte
	for i := 0; i < nmsg; i++ {
		switch pick(fmt.Sprintf("msg%d", i), 3) {
		case 0:
			in = append(in, frameMsg(wire.CmdPing, encodeMsg(wire.NewMsgPing(nondetU64(fmt.Sprintf("nonce%d", i)))), false)...)
		case 1:
			in = append(in, frameMsg(wire.CmdVerAck, nil, false)...)
		case 2:
			me := wire.NewNetAddressIPPort([]byte{0, 0, 0, 0, 0, 0, 0, 0, 0, 0, 0xff, 0xff, 1, 2, 3, 4}, 8333, 0)
			in = append(in, frameMsg(wire.CmdVersion, encodeMsg(wire.NewMsgVersion(me, me, 7, 100)), false)...)
		}
	}
	e.conn.in = in
	done := make(chan error, 1)
	go func() { done <- e.node.run(e.ctx, e.intr) }()
	if nondetBool("manager-stops-node") {
		close(e.intr)
		verifReach("stopped-by-manager")
	}
	returned := false
	if verifInEngine() {
		verifQuiesce()
		select {
		case <-done:
			returned = true
		default:
		}
	} else {
		select {
		case <-done:
			returned = true
		case <-time.After(10 * time.Second):
		}
	}
	switch {
	case returned:
		verifReach("run-returned")
		verifAssert(e.node.IsStopped(), "run-returned-but-node-not-stopped")
		verifAssert(!e.node.IsReady(), "stopped-node-still-ready")
	default:
		verifAssert(false, "run-does-not-return-after-connection-closed")
	}
	verifReach("done")
}

func init() {
	verifHarnesses["VerifC15StopRace"] = VerifC15StopRace
}

// VerifC15StopRace: the node is stopped (connection and outgoing queue closed) while the handler
// of a message that makes the node reply is running, under every interleaving with bounded
// preemptions: no goroutine panics, the handler returns, Stop returns.
func VerifC15StopRace() {
	e := newNetEnv(true)
	var cmd string
	var payload []byte
	switch pick("message", 4) {
	case 0: // ping -> pong, at any stage
		if nondetBool("ready") {
			e.makeReady()
		}
		cmd, payload = wire.CmdPing, encodeMsg(wire.NewMsgPing(nondetU64("nonce")))
	case 1: // getaddr -> addr
		e.makeReady()
		cmd = wire.CmdGetAddr
	case 2: // inv -> getdata
		e.makeReady()
		m := wire.NewMsgInv()
		var h bitcoin.Hash32
		h[0] = 3
		m.AddInvVect(wire.NewInvVect(wire.InvTypeTx, &h))
		cmd, payload = m.Command(), encodeMsg(m)
	case 3: // verifying headers reply -> accept -> sendheaders, getaddr, getheaders, addr
		e.node.handshakeIsComplete.Store(true)
		e.headers.verifyOK = func(h *wire.BlockHeader) bool { return true }
		m := wire.NewMsgHeaders()
		m.AddBlockHeader(&wire.BlockHeader{Version: 1, Timestamp: 1600000000, Bits: 0x1d00ffff})
		cmd, payload = m.Command(), encodeMsg(m)
	}
	e.conn.in = frameMsg(cmd, payload, false)
	stopped := make(chan bool, 1)
	go func() {
		e.node.Stop(e.ctx)
		stopped <- true
	}()
	err := e.node.handleMessage(e.ctx, e.conn)
	<-stopped
	verifObserve("race", cmd)
	_ = err // an error only closes this connection
	verifAssert(e.conn.closed, "stopped-connection-not-closed")
	verifReach("done")
}

func init() {
	verifHarnesses["VerifC15Counts"] = VerifC15Counts
}

// VerifC15Counts: correctly framed list messages (inv, headers, addr) whose declared item count is
// any 64-bit value in any varint encoding, followed by a few arbitrary bytes: no handler crashes
// and none sizes an allocation from the declared count.
func VerifC15Counts() {
	cmds := []string{wire.CmdInv, wire.CmdHeaders, wire.CmdAddr}
	cmd := cmds[pick("command", len(cmds))]
	e := newNetEnv(true)
	if cmd == wire.CmdHeaders && nondetBool("while-verifying") {
		e.node.handshakeIsComplete.Store(true)
	} else {
		e.makeReady()
	}
	var payload []byte
	switch pick("varint-size", 4) {
	case 0:
		b := nondetU8("count8")
		verifAssume(b < 0xfd)
		payload = []byte{b}
	case 1:
		payload = append([]byte{0xfd}, nondetBytes("count16", 2)...)
	case 2:
		payload = append([]byte{0xfe}, nondetBytes("count32", 4)...)
	case 3:
		payload = append([]byte{0xff}, nondetBytes("count64", 8)...)
	}
	tail := pick("tail", verifParam("maxtail", 2)+1)
	payload = append(payload, nondetBytes("items", tail)...)
	e.conn.in = frameMsg(cmd, payload, false)
	verifSetAllocBudget(len(e.conn.in) + 65536)
	err := e.node.handleMessage(e.ctx, e.conn)
	left := verifQuiesce()
	verifAllocDone()
	verifObserve("counts", cmd, len(payload), err == nil)
	verifAssert(left == 0, "goroutine-left-blocked-after-message")
	verifReach("done")
}

func init() {
	verifHarnesses["VerifC15TxCounts"] = VerifC15TxCounts
}

// VerifC15TxCounts: a transaction (in a tx message, or as the first transaction of a requested
// block) whose input count is any value in any varint encoding, followed by a few arbitrary bytes:
// the process keeps running (a decoder panic costs the connection only) and allocations are not
// sized from the declared count.
func VerifC15TxCounts() {
	e := newNetEnv(true)
	e.makeReady()
	tx := nondetBytes("version", 4)
	switch pick("varint-size", 4) {
	case 0:
		b := nondetU8("count8")
		verifAssume(b < 0xfd)
		tx = append(tx, b)
	case 1:
		tx = append(append(tx, 0xfd), nondetBytes("count16", 2)...)
	case 2:
		tx = append(append(tx, 0xfe), nondetBytes("count32", 4)...)
	case 3:
		tx = append(append(tx, 0xff), nondetBytes("count64", 8)...)
	}
	tail := pick("tail", verifParam("maxtail", 2)+1)
	tx = append(tx, nondetBytes("rest", tail)...)
	var cmd string
	var payload []byte
	if nondetBool("inside-requested-block") {
		header := &wire.BlockHeader{Version: 1, Timestamp: 1600000000, Bits: 0x1d00ffff, Nonce: 11}
		hash := *header.BlockHash()
		e.node.RequestBlock(e.ctx, hash, func(ctx contextT, hd *wire.BlockHeader, c uint64, ch <-chan *wire.MsgTx) error {
			for range ch {
			}
			return nil
		}, func(contextT) {})
		e.drainOutgoing()
		var buf bytesBuffer
		header.Serialize(&buf)
		payload = append(buf.Bytes(), 1) // one transaction announced
		payload = append(payload, tx...)
		cmd = wire.CmdBlock
	} else {
		cmd, payload = wire.CmdTx, tx
	}
	e.conn.in = frameMsg(cmd, payload, nondetBool("extended"))
	verifSetAllocBudget(len(e.conn.in) + 65536)
	err := e.node.handleMessage(e.ctx, e.conn)
	left := verifQuiesce()
	verifAllocDone()
	verifObserve("txcounts", cmd, len(payload), err == nil)
	verifAssert(left == 0, "goroutine-left-blocked-after-message")
	verifReach("done")
}
