package bitcoin_reader

import (
	"context"
	"sync"
	"time"

	"github.com/google/uuid"
	"github.com/tokenized/pkg/bitcoin"
	"github.com/tokenized/pkg/wire"
	"github.com/tokenized/threads"
)

func init() {
	verifHarnesses["VerifC16Downloader"] = VerifC16Downloader
}

// spyCanceller is the peer connection seen from the downloader: CancelBlockRequest reports
// whether the block handler had already been started.
type spyCanceller struct {
	id      uuid.UUID
	started func() bool
	cancels int
}

func (c *spyCanceller) ID() uuid.UUID { return c.id }
func (c *spyCanceller) CancelBlockRequest(ctx context.Context, h bitcoin.Hash32) bool {
	c.cancels++
	return c.started()
}

// VerifC16Downloader: every interleaving of handler start, transactions, end of stream, Cancel
// (manager), Stop (peer dropped) and interrupt (shutdown): Run returns, nothing stays blocked on
// the signalling channels, and no 10 second cancel wait is needed.
func VerifC16Downloader() {
	ctx := ctxbg()
	header := &wire.BlockHeader{Version: 1, Timestamp: 1600000000, Bits: 0x1d00ffff, Nonce: 9}
	ntx := 1
	if verifParam("onetx", 0) == 0 {
		ntx = 1 + pick("ntx", 2)
	}
	var txs []*wire.MsgTx
	var txids []bitcoin.Hash32
	for i := 0; i < ntx; i++ {
		txs = append(txs, mkTx(i))
		txids = append(txids, *txs[i].TxHash())
	}
	header.MerkleRoot = refMerkleRoot(txids)
	requested := *header.BlockHash()
	if nondetBool("other-block-delivered") {
		requested[0] ^= 0xff
	}
	spy := &spyProcessor{failAt: -1}
	btm := &spyBlockTxManager{p: spy}
	bd := NewBlockDownloader(spy, btm, requested, 700001)

	handlerStarted := false
	withHandler := nondetBool("handler-runs")
	var withCancel, withStop, withInterrupt bool
	if verifParam("allsubsets", 0) == 1 {
		withCancel = nondetBool("manager-cancels")
		withStop = nondetBool("peer-drops")
		withInterrupt = nondetBool("shutdown")
	} else {
		// at most two of the three terminating events at once
		switch pick("events", 7) {
		case 0:
		case 1:
			withCancel = true
		case 2:
			withStop = true
		case 3:
			withInterrupt = true
		case 4:
			withCancel, withStop = true, true
		case 5:
			withCancel, withInterrupt = true, true
		case 6:
			withStop, withInterrupt = true, true
		}
	}
	feeder := verifParam("feeder", 0) == 1
	cancelSeesStarted := nondetBool("peer-reports-started") // what the connection answers at cancel time
	can := &spyCanceller{id: uuid.New(), started: func() bool { return handlerStarted && cancelSeesStarted }}
	bd.SetCanceller(can.id, can)

	interrupt := make(chan interface{})
	start := verifClock()
	var runErr error
	var runDone, others sync.WaitGroup
	runDone.Add(1)
	go func() {
		runErr = bd.Run(ctx, interrupt)
		runDone.Done()
	}()
	if withHandler {
		others.Add(1)
		go func() {
			ch := make(chan *wire.MsgTx, 10)
			handlerStarted = true
			if feeder {
				go func() {
					for _, tx := range txs {
						ch <- tx
					}
					close(ch)
				}()
			} else {
				for _, tx := range txs {
					ch <- tx
				}
				close(ch)
			}
			bd.HandleBlock(ctx, header, uint64(ntx), ch)
			others.Done()
		}()
	}
	if withCancel {
		others.Add(1)
		go func() { bd.Cancel(ctx); others.Done() }()
	}
	if withStop {
		others.Add(1)
		go func() { bd.Stop(ctx); others.Done() }()
	}
	if withInterrupt {
		others.Add(1)
		go func() { close(interrupt); others.Done() }()
	}
	if !withHandler && !withCancel && !withStop && !withInterrupt {
		// nothing ever happens: only the 2 minute request timeout ends Run; not a stall
		verifReach("idle")
		return
	}
	if withHandler && cancelSeesStarted && withCancel && !withStop && !withInterrupt {
		verifReach("cancel-while-handler-running")
	}
	left := verifQuiesce()
	elapsed := verifClock() - start
	verifObserve("c16", ntx, withHandler, withCancel, withStop, withInterrupt, left)
	if left != 0 {
		// a goroutine is blocked with no timer pending that could release it
		verifAssert(false, "goroutine-blocked-forever:"+verifBlockedInfo())
		return
	}
	runDone.Wait()
	others.Wait()
	verifAssert(elapsed < int64(10*time.Second), "termination-needed-a-timeout")
	_ = runErr
	_ = threads.Interrupted
	verifAssert(len(bd.Started) <= 2 && len(bd.Complete) <= 2, "signal-channel-over-capacity")
	verifReach("done")
}

func init() {
	verifHarnesses["VerifC16Manager"] = VerifC16Manager
}

// scriptedRequestor is the block source seen from the BlockManager: every RequestBlock creates
// a "connection" whose behaviour (deliver, deliver the wrong block, never answer) is scripted.
type scriptedRequestor struct {
	header    *wire.BlockHeader
	txs       []*wire.MsgTx
	script    []int // per request: 0 deliver, 1 wrong block, 2 never answer, 3 refuse the request, 4 drop mid-block
	requests  int
	active    int
	maxActive int
	okReturns int // handlers that returned nil
	cancellers []*spyCanceller
	ctx       context.Context
	wg        sync.WaitGroup
}

func (r *scriptedRequestor) RequestBlock(ctx context.Context, hash bitcoin.Hash32, handler HandleBlock,
	onStop OnStop) (BlockRequestCanceller, error) {
	k := r.requests
	r.requests++
	behaviour := 0
	if k < len(r.script) {
		behaviour = r.script[k]
	}
	if behaviour == 3 {
		return nil, ErrNodeNotAvailable
	}
	started := false
	can := &spyCanceller{id: uuid.New(), started: func() bool { return started }}
	r.cancellers = append(r.cancellers, can)
	if behaviour == 2 {
		return can, nil
	}
	r.active++
	if r.active > r.maxActive {
		r.maxActive = r.active
	}
	r.wg.Add(1)
	go func() {
		ch := make(chan *wire.MsgTx, 10)
		for _, tx := range r.txs {
			ch <- tx
		}
		close(ch)
		announced := uint64(len(r.txs))
		if behaviour == 4 {
			announced++ // the connection drops before the last announced transaction arrives
		}
		hd := r.header
		if behaviour == 1 {
			c := *r.header
			c.Nonce++
			hd = &c
		}
		started = true
		err := handler(r.ctx, hd, announced, ch)
		if err == nil && behaviour == 0 {
			r.okReturns++
		}
		r.active--
		r.wg.Done()
	}()
	return can, nil
}

// VerifC16Manager: while the manager runs, a queued request ends in exactly one terminal signal
// (complete closed, or one error value), is marked complete only after a downloader returned
// nil for that hash, never has more than the configured number of concurrent downloads, and the
// downloader list returns to empty.
func VerifC16Manager() {
	ctx := ctxbg()
	header := &wire.BlockHeader{Version: 1, Timestamp: 1600000000, Bits: 0x1d00ffff, Nonce: 9}
	txs := []*wire.MsgTx{mkTx(0)}
	header.MerkleRoot = refMerkleRoot([]bitcoin.Hash32{*txs[0].TxHash()})
	hash := *header.BlockHash()
	spy := &spyProcessor{failAt: -1}
	btm := &spyBlockTxManager{p: spy}
	req := &scriptedRequestor{header: header, txs: txs, ctx: ctx}
	nscript := verifParam("scripted", 2)
	silent := verifParam("silentpeers", 0) == 1 // every peer accepts the request and never answers
	for k := 0; k < nscript; k++ {
		if silent {
			req.script = append(req.script, 2)
		} else {
			req.script = append(req.script, pick("behaviour", 5))
		}
	}
	concurrent := verifParam("concurrentmin", 1) + pick("concurrent", 2)
	delay := 5 * time.Second
	if silent {
		delay = 5 * time.Millisecond
	}
	bm := NewBlockManager(btm, req, concurrent, delay)
	interrupt := make(chan interface{})
	var runDone sync.WaitGroup
	runDone.Add(1)
	var runErr error
	go func() {
		runErr = bm.Run(ctx, interrupt)
		runDone.Done()
	}()

	complete, abort := bm.AddRequest(ctx, hash, 700001, spy)
	abortIt := nondetBool("abort-request")
	if silent {
		// let the manager start all its concurrent downloads before the request is aborted
		abortIt = true
		for k := 0; k <= concurrent; k++ {
			verifSettle()
			verifAdvanceClock(int64(6 * time.Millisecond)) // one request delay
		}
		verifSettle()
		verifAssert(req.requests == concurrent, "concurrent-downloads-not-started")
	}
	if abortIt {
		close(abort)
	}
	var result error
	closed := false
	select {
	case err, ok := <-complete:
		if !ok {
			closed = true
		} else {
			result = err
		}
	}
	if silent {
		// the request has ended while the manager keeps running: every download started for it
		// is cancelled at its peer and leaves the list, without waiting for any timeout
		verifSettle()
		verifAssert(len(bm.downloaders) == 0, "downloads-still-running-after-the-request-ended")
		for _, c := range req.cancellers {
			verifAssert(c.cancels >= 1, "peer-never-asked-to-cancel-after-the-request-ended")
		}
		verifReach("all-cancelled")
	}
	if closed || result != nil {
		// the request has ended while the manager keeps running: whatever was still downloading
		// this block is cancelled and leaves the list without waiting for any timeout - a
		// registry that lost track of an active download (or kept a finished one) shows here
		verifSettle()
		verifAssert(len(bm.downloaders) == 0, "downloader-list-not-empty-after-the-request-ended")
	}
	// a second terminal signal must never come
	extra := false
	if !closed {
		verifQuiesce()
		select {
		case _, ok := <-complete:
			if ok {
				extra = true
			} else {
				extra = true // both an error value and a close
			}
		default:
		}
	}
	verifAssert(!extra, "request-got-two-terminal-signals")
	if closed {
		verifReach("completed")
		verifAssert(req.okReturns >= 1, "marked-complete-without-a-successful-download")
		verifAssert(!abortIt || req.okReturns >= 1, "aborted-request-completed")
	} else {
		verifReach("ended-with-error")
		verifAssert(result != nil, "terminal-signal-without-value")
	}
	verifAssert(req.maxActive <= concurrent, "more-concurrent-downloads-than-configured")
	close(interrupt)
	runDone.Wait()
	req.wg.Wait()
	left := verifQuiesce()
	verifAssert(left == 0, "goroutine-left-blocked:"+verifBlockedInfo())
	verifAssert(len(bm.downloaders) == 0, "downloader-list-not-empty-at-the-end")
	_ = runErr
	verifObserve("manager", concurrent, abortIt, closed, req.requests)
	verifReach("done")
}
