package bitcoin_reader

import (
	"bytes"
	"context"
	"io"
	"net"
	"time"

	"github.com/tokenized/bitcoin_reader/headers"
	"github.com/tokenized/config"
	"github.com/tokenized/pkg/bitcoin"
	"github.com/tokenized/pkg/wire"
)

// symConn is the peer's side of the connection: a byte script to read, an outbox for writes.
type symConn struct {
	in     []byte
	pos    int
	out    []byte
	closed bool
	chunk  int // max bytes returned per Read (0: as many as requested)
	reads  int
}

func (c *symConn) Read(p []byte) (int, error) {
	c.reads++
	if c.closed {
		return 0, io.EOF
	}
	if c.pos >= len(c.in) {
		return 0, io.EOF
	}
	n := len(p)
	if c.chunk > 0 && n > c.chunk {
		n = c.chunk
	}
	if n > len(c.in)-c.pos {
		n = len(c.in) - c.pos
	}
	copy(p, c.in[c.pos:c.pos+n])
	c.pos += n
	return n, nil
}
func (c *symConn) Write(p []byte) (int, error) {
	if c.closed {
		return 0, io.ErrClosedPipe
	}
	c.out = append(c.out, p...)
	return len(p), nil
}
func (c *symConn) Close() error                       { c.closed = true; return nil }
func (c *symConn) LocalAddr() net.Addr                { return nil }
func (c *symConn) RemoteAddr() net.Addr               { return nil }
func (c *symConn) SetDeadline(t time.Time) error      { return nil }
func (c *symConn) SetReadDeadline(t time.Time) error  { return nil }
func (c *symConn) SetWriteDeadline(t time.Time) error { return nil }

// spyHeaders implements HeaderRepository and records what reaches it.
type spyHeaders struct {
	processed  int
	verifyOK   func(h *wire.BlockHeader) bool
	verifyErr  error // returned when verifyOK says no (default: unknown header)
	verified   int   // VerifyHeader calls that returned nil
	refused    int   // VerifyHeader calls that returned an error
	processErr error
	locators   int
}

func (s *spyHeaders) GetNewHeadersAvailableChannel() <-chan *wire.BlockHeader { return nil }
func (s *spyHeaders) Height() int                                            { return 10 }
func (s *spyHeaders) Hash(ctx context.Context, h int) (*bitcoin.Hash32, error) {
	return &bitcoin.Hash32{}, nil
}
func (s *spyHeaders) HashHeight(hash bitcoin.Hash32) int                        { return -1 }
func (s *spyHeaders) LastHash() bitcoin.Hash32                                  { return bitcoin.Hash32{} }
func (s *spyHeaders) LastTime() uint32                                          { return 0 }
func (s *spyHeaders) PreviousHash(bitcoin.Hash32) (*bitcoin.Hash32, int)        { return nil, -1 }
func (s *spyHeaders) GetLocatorHashes(ctx context.Context, max int) ([]bitcoin.Hash32, error) {
	s.locators++
	return []bitcoin.Hash32{{}}, nil
}
func (s *spyHeaders) GetVerifyOnlyLocatorHashes(ctx context.Context) ([]bitcoin.Hash32, error) {
	s.locators++
	return []bitcoin.Hash32{{}}, nil
}
func (s *spyHeaders) VerifyHeader(ctx context.Context, h *wire.BlockHeader) error {
	if s.verifyOK != nil && s.verifyOK(h) {
		s.verified++
		return nil
	}
	s.refused++
	if s.verifyErr != nil {
		return s.verifyErr
	}
	return headers.ErrUnknownHeader
}
func (s *spyHeaders) ProcessHeader(ctx context.Context, h *wire.BlockHeader) error {
	s.processed++
	return s.processErr
}
func (s *spyHeaders) Stop(ctx context.Context) {}

// spyPeers implements PeerRepository.
type spyPeers struct {
	adds, scores, times int
}

func (s *spyPeers) Add(ctx context.Context, address string) (bool, error) { s.adds++; return true, nil }
func (s *spyPeers) Get(ctx context.Context, min, max int32) (PeerList, error) {
	return PeerList{}, nil
}
func (s *spyPeers) UpdateTime(ctx context.Context, address string) bool { s.times++; return true }
func (s *spyPeers) UpdateScore(ctx context.Context, address string, d int32) bool {
	s.scores++
	return true
}

type netEnv struct {
	node    *BitcoinNode
	conn    *symConn
	headers *spyHeaders
	peers   *spyPeers
	txm     *TxManager
	ctx     context.Context
	intr    chan interface{}
}

func newNetEnv(withTxManager bool) *netEnv {
	e := &netEnv{ctx: context.Background(), headers: &spyHeaders{}, peers: &spyPeers{}, conn: &symConn{}}
	cfg := &Config{Network: bitcoin.MainNet, Timeout: config.NewDuration(time.Hour)}
	e.node = NewBitcoinNode("1.2.3.4:8333", "/verif/", cfg, e.headers, e.peers)
	e.node.outgoingMsgChannel.Open(1000)
	e.intr = make(chan interface{})
	e.node.interrupt = e.intr
	e.node.connection = e.conn
	if withTxManager {
		e.txm = NewTxManager(time.Second * 5)
		e.node.SetTxManager(e.txm)
	}
	return e
}

// makeReady performs what a successful handshake and verification do.
func (e *netEnv) makeReady() {
	e.node.handshakeIsComplete.Store(true)
	e.node.accept(e.ctx)
	e.drainOutgoing()
}

func (e *netEnv) drainOutgoing() []wire.Message {
	var out []wire.Message
	for {
		select {
		case m, ok := <-e.node.outgoingMsgChannel.Channel:
			if !ok {
				return out
			}
			out = append(out, m)
		default:
			return out
		}
	}
}

func checksum4(payload []byte) [4]byte {
	d := bitcoin.DoubleSha256(payload)
	var c [4]byte
	copy(c[:], d[:4])
	return c
}

func putU32(b []byte, v uint32) {
	b[0], b[1], b[2], b[3] = byte(v), byte(v>>8), byte(v>>16), byte(v>>24)
}

func putU64(b []byte, v uint64) {
	putU32(b, uint32(v))
	putU32(b[4:], uint32(v>>32))
}

// frameMsg wraps payload in a classic (24 byte header, checksum) or extended frame.
func frameMsg(cmd string, payload []byte, extended bool) []byte {
	hdr := make([]byte, 24)
	putU32(hdr, uint32(bitcoin.MainNet))
	if !extended {
		copy(hdr[4:16], cmd)
		putU32(hdr[16:], uint32(len(payload)))
		c := checksum4(payload)
		copy(hdr[20:], c[:])
		return append(hdr, payload...)
	}
	copy(hdr[4:16], wire.CmdExtended)
	putU32(hdr[16:], 0xffffffff)
	ext := make([]byte, 20)
	copy(ext[:12], cmd)
	putU64(ext[12:], uint64(len(payload)))
	out := append(hdr, ext...)
	return append(out, payload...)
}

func encodeMsg(m wire.Message) []byte {
	var buf bytes.Buffer
	if err := m.BtcEncode(&buf, wire.ProtocolVersion); err != nil {
		verifAssume(false)
	}
	return buf.Bytes()
}

type contextT = context.Context
type readerT = io.Reader
