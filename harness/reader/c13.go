package bitcoin_reader

import (
	"bytes"
	"fmt"

	"github.com/pkg/errors"
	"github.com/tokenized/bitcoin_reader/headers"

	"github.com/tokenized/pkg/bitcoin"
	"github.com/tokenized/pkg/wire"
)

func init() {
	verifHarnesses["VerifC13PreVerification"] = VerifC13PreVerification
	verifHarnesses["VerifC13Selection"] = VerifC13Selection
}

var preVerificationCommands = map[string]bool{
	wire.CmdVersion: true, wire.CmdVerAck: true, wire.CmdHeaders: true, wire.CmdProtoconf: true,
	wire.CmdPing: true, wire.CmdReject: true, wire.CmdExtended: true,
}

func (e *netEnv) txManagerUntouched() bool {
	if e.txm == nil {
		return true
	}
	for _, m := range e.txm.txMaps {
		if len(m.txs) != 0 {
			return false
		}
	}
	return len(e.txm.txChannel) == 0
}

const verifMagicNonce = 0x5eed0001

// VerifC13PreVerification: one step from any pre-verification state: whatever message arrives,
// nothing reaches the header repository, the tx manager or the address book, and the node becomes
// ready only through a headers reply, after the handshake, whose first header verifies.
func VerifC13PreVerification() {
	e := newNetEnv(nondetBool("with-tx-manager"))
	handshakeDone := nondetBool("handshake-complete")
	e.node.handshakeIsComplete.Store(handshakeDone)
	verifyOnly := nondetBool("verify-only")
	if verifyOnly {
		e.node.SetVerifyOnly()
	}
	if nondetBool("protoconf-seen") {
		e.node.protoconfCount = 1
	}
	// the header repository's chain check: stands for "hashes to the BSV split header" (C03)
	e.headers.verifyOK = func(h *wire.BlockHeader) bool { return h.Nonce == verifMagicNonce }
	// every way the repository's chain check can say no (headers.Repository.VerifyHeader)
	switch pick("refusal-kind", 3) {
	case 0:
		e.headers.verifyErr = headers.ErrUnknownHeader
	case 1:
		e.headers.verifyErr = errors.Wrap(headers.ErrWrongChain, "BCH")
	case 2:
		e.headers.verifyErr = errors.New("Header after genesis")
	}

	cmd, payload, mayExtend := conformantMessage(e, true)
	extended := mayExtend && nondetBool("extended-framing")
	e.conn.in = frameMsg(cmd, payload, extended)
	// base case of the induction: a fresh node satisfies the invariant
	for k := range e.node.handlers {
		verifAssert(preVerificationCommands[k], "fresh-node-has-handler-beyond-handshake-set")
	}
	err := e.node.handleMessage(e.ctx, e.conn)
	ready := e.node.IsReady()
	verifObserve("step", cmd, handshakeDone, verifyOnly, extended, err == nil, ready, e.node.Verified(), e.conn.closed)

	verifAssert(e.headers.processed == 0, "header-repository-reached-before-verification")
	verifAssert(e.peers.adds == 0 && e.peers.scores == 0, "address-book-reached-before-verification")
	verifAssert(e.txManagerUntouched(), "tx-manager-reached-before-verification")
	if !ready {
		verifReach("still-unverified")
		verifAssert(!e.node.Verified(), "verified-but-not-ready")
		for k := range e.node.handlers {
			verifAssert(preVerificationCommands[k], "handler-enabled-before-verification:"+k)
		}
	} else {
		verifReach("became-ready")
		verifAssert(cmd == wire.CmdHeaders, "became-ready-without-headers-reply:"+cmd)
		verifAssert(handshakeDone, "became-ready-before-handshake-completed")
		verifAssert(e.headers.verified == 1 && e.headers.refused == 0, "became-ready-although-chain-check-refused-the-reply")
		if verifyOnly {
			verifAssert(e.conn.closed, "verify-only-node-not-disconnected-after-verification")
			verifReach("verify-only-closed")
		}
	}
	if e.node.Verified() {
		verifAssert(ready || verifyOnly, "verified-flag-without-ready")
	}
	verifReach("done")
}

// VerifC13Selection: a node that is not ready is never selected to serve header, transaction or
// block requests, whatever the other flags are.
func VerifC13Selection() {
	count := 1 + pick("nodes", 3)
	hs := &spyHeaders{}
	ps := &spyPeers{}
	cfg := DefaultConfig()
	m := NewNodeManager("/verif/", cfg, hs, ps)
	var nodes []*BitcoinNode
	for i := 0; i < count; i++ {
		n := NewBitcoinNode(fmt.Sprintf("1.2.3.%d:8333", i), "/verif/", cfg, hs, ps)
		n.outgoingMsgChannel.Open(100)
		n.isReady.Store(nondetBool(fmt.Sprintf("ready%d", i)))
		n.isStopped.Store(nondetBool(fmt.Sprintf("stopped%d", i)))
		if nondetBool(fmt.Sprintf("busy%d", i)) {
			now := cfg.Timeout.Duration
			_ = now
			n.requestTime = &n.pingSent
		}
		nodes = append(nodes, n)
		m.nodes = append(m.nodes, &nodeThread{node: n, id: n.id})
	}
	m.nextNodeOffset = pick("offset", count+1)
	picked := m.nextNode(ctxbg(), nil)
	if picked != nil {
		verifReach("selected")
		verifAssert(picked.IsReady(), "not-ready-node-selected")
		verifAssert(!picked.IsStopped() && !picked.IsBusy(), "stopped-or-busy-node-selected")
	} else {
		verifReach("none")
		for _, n := range nodes {
			verifAssert(!(n.IsReady() && !n.IsStopped() && !n.IsBusy()), "available-node-not-selected")
		}
	}
	// broadcast
	tx := wire.NewMsgTx(1)
	m.SendTx(ctxbg(), tx)
	for _, n := range nodes {
		if !n.IsReady() {
			verifAssert(len(n.outgoingMsgChannel.Channel) == 0, "tx-sent-to-not-ready-node")
		}
	}
	verifReach("done")
}

func init() {
	verifHarnesses["VerifC03Node"] = VerifC03Node
}

// VerifC03Node: a peer is treated as verified only if the first header of its reply to the
// verification request hashes to the BSV split header (real headers.Repository.VerifyHeader,
// digest uninterpreted); any other reply, including an empty one, leaves it unverified and
// disconnected; verify-only nodes disconnect after success.
func VerifC03Node() {
	e := newNetEnv(nondetBool("with-tx-manager"))
	repo := realHeaders()
	e.node.headers = repo
	e.node.handshakeIsComplete.Store(true)
	verifyOnly := nondetBool("verify-only")
	if verifyOnly {
		e.node.SetVerifyOnly()
	}
	count := pick("count", 3)
	payload := []byte{byte(count)}
	var first *wire.BlockHeader
	wellFormed := true
	for i := 0; i < count; i++ {
		var raw []byte
		if nondetBool(fmt.Sprintf("real-bsv-header%d", i)) {
			// the real BSV split header (so that counterexamples replay natively with real SHA-256)
			var buf bytes.Buffer
			headers.MainNetRequiredHeader.Serialize(&buf)
			raw = buf.Bytes()
		} else {
			raw = nondetBytes(fmt.Sprintf("header%d", i), 80)
		}
		if i == 0 {
			first = &wire.BlockHeader{}
			first.Deserialize(bytes.NewReader(raw))
		}
		payload = append(payload, raw...)
		// the transaction count that follows each header is zero in a conformant reply
		txc := nondetU8(fmt.Sprintf("txcount%d", i))
		verifAssume(txc < 0xfd)
		if i == 0 && txc != 0 {
			wellFormed = false
		}
		payload = append(payload, txc)
	}
	e.conn.in = frameMsg(wire.CmdHeaders, payload, false)
	err := e.node.handleMessage(e.ctx, e.conn)
	bsv, _ := bitcoin.NewHash32FromStr("000000000000000001d956714215d96ffc00e0afda4cd0a96c96f8d802b1662b")
	isBSV := false
	if first != nil {
		isBSV = first.BlockHash().Equal(bsv)
	}
	verifObserve("node", count, verifyOnly, err == nil, wellFormed)
	// an error returned to the read loop ends the session like a closed connection does
	dropped := e.conn.closed || err != nil
	if isBSV && wellFormed {
		verifReach("bsv-reply")
		verifAssert(e.node.Verified(), "bsv-split-reply-not-verified")
		if verifyOnly {
			verifAssert(e.conn.closed, "verify-only-node-not-disconnected-after-verification")
		} else {
			verifAssert(e.node.IsReady(), "verified-full-node-not-ready")
		}
	} else {
		verifReach("other-reply")
		if !wellFormed {
			verifReach("malformed-reply")
		}
		if !isBSV {
			verifAssert(!e.node.Verified(), "peer-verified-without-the-bsv-split-header")
			verifAssert(!e.node.IsReady(), "unverified-peer-is-ready")
		}
		if !e.node.Verified() {
			verifAssert(dropped, "unverified-peer-not-disconnected")
		}
	}
	verifReach("done")
}

func init() {
	verifHarnesses["VerifC13Handshake"] = VerifC13Handshake
}

// VerifC13Handshake: the real handshake goroutine runs beside the message loop while the peer
// sends any sequence of version (every peer-controlled field symbolic, including the user agent),
// verack, headers, addr and inv messages. The node becomes ready only after a headers reply that
// arrived after both version and verack and whose first header passes the chain check; until then
// nothing reaches the repositories or the tx manager.
func VerifC13Handshake() {
	steps := verifParam("steps", 3)
	agentLen := verifParam("agentlen", 14)
	e := newNetEnv(nondetBool("with-tx-manager"))
	verifyOnly := nondetBool("verify-only")
	if verifyOnly {
		e.node.SetVerifyOnly()
	}
	e.headers.verifyOK = func(h *wire.BlockHeader) bool { return h.Nonce == verifMagicNonce }
	done := make(chan error, 1)
	go func() { done <- e.node.handshake(e.ctx, e.intr) }()
	verifSettle()

	versionSeen, verackSeen := false, false
	for s := 0; s < steps; s++ {
		complete := e.node.HandshakeIsComplete()
		verifAssert(complete == (versionSeen && verackSeen), "handshake-complete-flag-not-version-and-verack")
		proves := false
		var cmd string
		var payload []byte
		switch pick(fmt.Sprintf("msg%d", s), 5) {
		case 0:
			me := wire.NewNetAddressIPPort(nondetBytes(fmt.Sprintf("vip%d", s), 16), nondetU16(fmt.Sprintf("vport%d", s)), 0)
			m := wire.NewMsgVersion(me, me, nondetU64(fmt.Sprintf("vnonce%d", s)), int32(nondetU32(fmt.Sprintf("vheight%d", s))))
			m.UserAgent = string(nondetBytes(fmt.Sprintf("agent%d", s), agentLen))
			m.ProtocolVersion = int32(nondetU32(fmt.Sprintf("vproto%d", s)))
			m.Services = wire.ServiceFlag(nondetU64(fmt.Sprintf("vservices%d", s)))
			cmd, payload = m.Command(), encodeMsg(m)
			versionSeen = true
		case 1:
			cmd = wire.CmdVerAck
			verackSeen = true
		case 2:
			m := wire.NewMsgHeaders()
			h := &wire.BlockHeader{Version: 1, Timestamp: 1600000000, Bits: 0x1d00ffff, Nonce: nondetU32(fmt.Sprintf("hnonce%d", s))}
			m.AddBlockHeader(h)
			cmd, payload = m.Command(), encodeMsg(m)
			proves = complete && h.Nonce == verifMagicNonce
		case 3:
			m := wire.NewMsgAddr()
			m.AddAddress(wire.NewNetAddressIPPort(nondetBytes(fmt.Sprintf("ip%d", s), 16), 8333, wire.SFNodeNetwork))
			cmd, payload = m.Command(), encodeMsg(m)
		case 4:
			m := wire.NewMsgInv()
			x := symHash(fmt.Sprintf("inv%d", s))
			x[0] = 1
			m.AddInvVect(wire.NewInvVect(wire.InvTypeTx, &x))
			cmd, payload = m.Command(), encodeMsg(m)
		}
		e.conn.in, e.conn.pos = frameMsg(cmd, payload, false), 0
		err := e.node.handleMessage(e.ctx, e.conn)
		verifSettle()
		ready := e.node.IsReady()
		verifObserve("step", s, cmd, complete, proves, err == nil, ready, e.node.Verified(), e.conn.closed)
		if proves {
			verifReach("proved-chain")
			if verifyOnly {
				verifAssert(e.node.Verified() && e.conn.closed, "verify-only-node-not-disconnected-after-verification")
			} else {
				verifAssert(ready, "proved-peer-not-ready")
			}
			break
		}
		verifAssert(!ready, "ready-without-proving-the-chain:"+cmd)
		verifAssert(!e.node.Verified(), "verified-without-proving-the-chain:"+cmd)
		verifAssert(e.headers.processed == 0, "header-repository-reached-before-verification")
		verifAssert(e.peers.adds == 0 && e.peers.scores == 0, "address-book-reached-before-verification")
		verifAssert(e.txManagerUntouched(), "tx-manager-reached-before-verification")
		for k := range e.node.handlers {
			verifAssert(preVerificationCommands[k], "handler-enabled-before-verification:"+k)
		}
		if err != nil || e.conn.closed {
			verifReach("dropped")
			break
		}
	}
	if versionSeen && verackSeen {
		verifReach("handshake-completed")
	}
	close(e.intr)
	verifSettle()
	verifReach("done")
}
