package bitcoin_reader

import (
	"time"
	"fmt"

	"github.com/tokenized/pkg/bitcoin"
	"github.com/tokenized/pkg/wire"
)

func init() {
	verifHarnesses["VerifC14Framing"] = VerifC14Framing
	verifHarnesses["VerifC14Discard"] = VerifC14Discard
}

func symHash(name string) bitcoin.Hash32 {
	var h bitcoin.Hash32
	copy(h[:], nondetBytes(name, 32))
	return h
}

func smallTx(name string) *wire.MsgTx {
	tx := wire.NewMsgTx(1)
	tx.LockTime = nondetU32(name + "-locktime")
	nin := pick(name+"-inputs", 2)
	for i := 0; i < nin; i++ {
		h := symHash(fmt.Sprintf("%s-in%d", name, i))
		tx.AddTxIn(wire.NewTxIn(wire.NewOutPoint(&h, nondetU32(name+"-index")), nondetBytes(name+"-unlock", 2)))
	}
	nout := pick(name+"-outputs", 2)
	for i := 0; i < nout; i++ {
		tx.AddTxOut(wire.NewTxOut(nondetU64(name+"-value"), nondetBytes(name+"-lock", 3)))
	}
	return tx
}

// conformantMessage builds one well-formed message with the real encoders; fields and small
// counts are symbolic. Returns command, payload and whether extended framing may be used.
func conformantMessage(e *netEnv, pre bool) (string, []byte, bool) {
	kind := pick("kind", 17)
	switch kind {
	case 0:
		m := wire.NewMsgPing(nondetU64("ping0"))
		return m.Command(), encodeMsg(m), false
	case 1:
		m := wire.NewMsgPong(nondetU64("pong"))
		// an answer to our own ping
		e.node.pingNonce = m.Nonce
		return m.Command(), encodeMsg(m), false
	case 2:
		m := wire.NewMsgInv()
		n := pick("invcount", verifParam("maxlist", 3)+1)
		for i := 0; i < n; i++ {
			h := symHash(fmt.Sprintf("inv%d", i))
			h[0] = byte(i) // the tx manager buckets by first byte: concrete bucket, symbolic rest
			t := wire.InvTypeTx
			if nondetBool(fmt.Sprintf("invblock%d", i)) {
				t = wire.InvTypeBlock
			}
			m.AddInvVect(wire.NewInvVect(t, &h))
		}
		return m.Command(), encodeMsg(m), false
	case 3:
		m := wire.NewMsgHeaders()
		n := pick("headercount", verifParam("maxlist", 2)+1)
		for i := 0; i < n; i++ {
			h := &wire.BlockHeader{Version: 1, Timestamp: nondetU32(fmt.Sprintf("htime%d", i)), Bits: 0x1d00ffff, Nonce: nondetU32(fmt.Sprintf("hnonce%d", i))}
			h.PrevBlock = symHash(fmt.Sprintf("hprev%d", i))
			m.AddBlockHeader(h)
		}
		return m.Command(), encodeMsg(m), false
	case 4:
		m := wire.NewMsgAddr()
		n := pick("addrcount", verifParam("maxlist", 2)+1)
		for i := 0; i < n; i++ {
			ip := nondetBytes(fmt.Sprintf("ip%d", i), 16)
			m.AddAddress(wire.NewNetAddressIPPort(ip, nondetU16(fmt.Sprintf("port%d", i)), wire.SFNodeNetwork))
		}
		return m.Command(), encodeMsg(m), false
	case 5:
		return wire.CmdGetAddr, nil, false
	case 6:
		return wire.CmdSendHeaders, nil, false
	case 7:
		return wire.CmdVerAck, nil, false
	case 8:
		tx := smallTx("tx")
		return wire.CmdTx, encodeMsg(tx), true
	case 9:
		// block: header, tx count, txs; requested or not
		h := &wire.BlockHeader{Version: 1, Timestamp: nondetU32("btime"), Bits: 0x1d00ffff, Nonce: 5}
		ntx := pick("blocktxs", verifParam("maxlist", 2)+1)
		var buf []byte
		{
			b := &wire.MsgBlock{Header: *h}
			for i := 0; i < ntx; i++ {
				b.AddTransaction(smallTx(fmt.Sprintf("btx%d", i)))
			}
			buf = encodeMsg(b)
		}
		nstates := 3
		if pre {
			nstates = 1 // an unverified node is never asked for a block
		}
		switch pick("blockstate", nstates) {
		case 0: // not requested
		case 1: // this block requested
			hash := *h.BlockHash()
			e.node.RequestBlock(e.ctx, hash, func(ctx2 contextT, hd *wire.BlockHeader, c uint64, ch <-chan *wire.MsgTx) error {
				for range ch {
				}
				return nil
			}, func(contextT) {})
		case 2: // another block requested
			var other bitcoin.Hash32
			other[0] = 0x42
			e.node.RequestBlock(e.ctx, other, func(ctx2 contextT, hd *wire.BlockHeader, c uint64, ch <-chan *wire.MsgTx) error {
				for range ch {
				}
				return nil
			}, func(contextT) {})
		}
		e.drainOutgoing()
		return wire.CmdBlock, buf, true
	case 10:
		m := wire.NewMsgReject("tx", wire.RejectInvalid, "r")
		m.Hash = symHash("rejecthash")
		return m.Command(), encodeMsg(m), false
	case 11:
		m := wire.NewMsgProtoconf()
		return m.Command(), encodeMsg(m), false
	case 12:
		// a command the reader has no handler for, any payload
		n := pick("unknownlen", verifParam("maxunknown", 6)+1)
		return "mempool", nondetBytes("unknownpayload", n), true
	case 13:
		n := pick("unknownlen2", verifParam("maxunknown", 6)+1)
		return "xyzzy", nondetBytes("unknownpayload2", n), true
	case 14:
		m := wire.NewMsgGetData()
		h := symHash("getdata")
		m.AddInvVect(wire.NewInvVect(wire.InvTypeTx, &h))
		return m.Command(), encodeMsg(m), false
	case 16:
		me := wire.NewNetAddressIPPort(nondetBytes("vip", 16), 8333, 0)
		m := wire.NewMsgVersion(me, me, nondetU64("vnonce"), int32(nondetU32("vheight")))
		return m.Command(), encodeMsg(m), false
	case 15:
		m := wire.NewMsgNotFound()
		h := symHash("notfound")
		m.AddInvVect(wire.NewInvVect(wire.InvTypeTx, &h))
		return m.Command(), encodeMsg(m), false
	}
	return wire.CmdVerAck, nil, false
}

// VerifC14Framing: after any one well-formed message, the connection is positioned at the first
// byte of the next message: a following ping is answered with a pong carrying its nonce.
func VerifC14Framing() {
	e := newNetEnv(nondetBool("with-tx-manager"))
	if nondetBool("with-header-handler") {
		e.node.SetHeaderHandler(func(ctx contextT, h *wire.MessageHeader, r readerT) error {
			return DiscardInput(r, h.Length)
		})
	}
	// configuration is part of the node's state: small and default values of the numeric knobs
	e.node.config.TxRequestCount = []int{1, 2, 10000}[pick("cfg-tx-request-count", 3)]
	e.makeReady()
	cmd, payload, mayExtend := conformantMessage(e, false)
	extended := mayExtend && nondetBool("extended-framing")
	first := frameMsg(cmd, payload, extended)
	nonce := nondetU64("ping-nonce")
	second := frameMsg(wire.CmdPing, encodeMsg(wire.NewMsgPing(nonce)), false)
	e.conn.in = append(append([]byte(nil), first...), second...)
	if nondetBool("single-byte-reads") {
		e.conn.chunk = 1
	}
	err1 := e.node.handleMessage(e.ctx, e.conn)
	verifObserve("first", cmd, len(payload), extended, err1 == nil, e.conn.pos, len(first))
	if err1 != nil {
		// the reader dropped the connection for this message; framing is only claimed while it is up
		verifReach("first-message-error:" + cmd)
		return
	}
	verifReach("first-ok:" + cmd)
	verifAssert(e.conn.pos == len(first), "message-not-consumed-to-its-declared-length:"+cmd)
	if e.conn.closed {
		return
	}
	e.drainOutgoing()
	err2 := e.node.handleMessage(e.ctx, e.conn)
	verifAssert(err2 == nil, "ping-after-message-fails:"+cmd)
	gotPong := false
	for _, m := range e.drainOutgoing() {
		if p, ok := m.(*wire.MsgPong); ok {
			gotPong = true
			verifAssert(p.Nonce == nonce, "pong-carries-wrong-nonce:"+cmd)
		}
	}
	verifAssert(gotPong, "ping-after-message-not-answered:"+cmd)
	verifReach("done")
}

// VerifC14Discard: DiscardInput consumes exactly n bytes for every n (chunk arithmetic).
func VerifC14Discard() {
	total := verifParam("discardmax", 3*1024+7)
	n := int(nondetU16("n"))
	verifAssume(n <= total)
	c := &symConn{in: make([]byte, total+5)}
	err := DiscardInput(c, uint64(n))
	verifAssert(err == nil, "discard-returns-error")
	verifAssert(c.pos == n, "discard-consumed-wrong-number-of-bytes")
	verifReach("done")
}

func init() {
	verifHarnesses["VerifC14FullLists"] = VerifC14FullLists
}

// VerifC14FullLists: lists filled to the protocol's maximum (inv, headers, addr) with fresh,
// concrete entries are consumed to their declared length; the following ping is answered.
func VerifC14FullLists() {
	e := newNetEnv(true)
	e.makeReady()
	var cmd string
	var payload []byte
	switch pick("list", 3) {
	case 0:
		n := verifParam("invcount", wire.MaxInvPerMsg)
		m := wire.NewMsgInvSizeHint(uint(n))
		for i := 0; i < n; i++ {
			var h bitcoin.Hash32
			h[0], h[1], h[2], h[3] = byte(i), byte(i>>8), byte(i>>16), 0x99
			m.AddInvVect(wire.NewInvVect(wire.InvTypeTx, &h))
		}
		cmd, payload = m.Command(), encodeMsg(m)
	case 1:
		n := verifParam("headercount", wire.MaxBlockHeadersPerMsg)
		m := wire.NewMsgHeaders()
		var prev bitcoin.Hash32
		for i := 0; i < n; i++ {
			h := &wire.BlockHeader{Version: 1, Timestamp: uint32(1600000000 + i), Bits: 0x1d00ffff, Nonce: uint32(i), PrevBlock: prev}
			prev[0], prev[1] = byte(i), byte(i>>8)
			m.AddBlockHeader(h)
		}
		cmd, payload = m.Command(), encodeMsg(m)
	case 2:
		n := verifParam("addrcount", wire.MaxAddrPerMsg)
		m := wire.NewMsgAddr()
		for i := 0; i < n; i++ {
			ip := []byte{0, 0, 0, 0, 0, 0, 0, 0, 0, 0, 0xff, 0xff, 10, byte(i >> 8), byte(i), 1}
			m.AddAddress(wire.NewNetAddressIPPort(ip, 8333, wire.SFNodeNetwork))
		}
		cmd, payload = m.Command(), encodeMsg(m)
	}
	first := frameMsg(cmd, payload, false)
	nonce := nondetU64("ping-nonce")
	second := frameMsg(wire.CmdPing, encodeMsg(wire.NewMsgPing(nonce)), false)
	e.conn.in = append(append([]byte(nil), first...), second...)
	err1 := e.node.handleMessage(e.ctx, e.conn)
	verifObserve("full", cmd, len(payload), err1 == nil, e.conn.pos, len(first))
	verifAssert(err1 == nil, "full-list-message-fails:"+cmd)
	verifAssert(e.conn.pos == len(first), "message-not-consumed-to-its-declared-length:"+cmd)
	e.drainOutgoing()
	err2 := e.node.handleMessage(e.ctx, e.conn)
	verifAssert(err2 == nil, "ping-after-message-fails:"+cmd)
	gotPong := false
	for _, m := range e.drainOutgoing() {
		if p, ok := m.(*wire.MsgPong); ok {
			gotPong = true
			verifAssert(p.Nonce == nonce, "pong-carries-wrong-nonce:"+cmd)
		}
	}
	verifAssert(gotPong, "ping-after-message-not-answered:"+cmd)
	verifReach("done")
}

func init() {
	verifHarnesses["VerifC14Sequence"] = VerifC14Sequence
}

// VerifC14Sequence: a sequence of well-formed messages of any kinds (so that a message meets the
// state the previous ones left: an announced transaction then delivered, a requested block then
// another block, repeated headers), each consumed to its declared length; the ping that follows
// is answered.
func VerifC14Sequence() {
	count := verifParam("messages", 2)
	e := newNetEnv(nondetBool("with-tx-manager"))
	// with "gap" the request timeout of the tx manager may pass between two messages
	gap := verifParam("gap", 0) == 1
	if gap && e.txm != nil {
		e.txm.requestTimeout.Store(50 * time.Millisecond)
	}
	e.makeReady()
	var stream []byte
	var ends []int
	var cmds []string
	for k := 0; k < count; k++ {
		cmd, payload, mayExtend := conformantMessage(e, false)
		extended := mayExtend && nondetBool("extended-framing")
		stream = append(stream, frameMsg(cmd, payload, extended)...)
		ends = append(ends, len(stream))
		cmds = append(cmds, cmd)
	}
	nonce := nondetU64("ping-nonce")
	stream = append(stream, frameMsg(wire.CmdPing, encodeMsg(wire.NewMsgPing(nonce)), false)...)
	e.conn.in = stream
	for k := 0; k < count; k++ {
		if gap && k > 0 && nondetBool("request-timeout-passes") {
			verifAdvanceClock(int64(60 * time.Millisecond))
			verifReach("time-passed")
		}
		err := e.node.handleMessage(e.ctx, e.conn)
		verifObserve("message", k, cmds[k], err == nil, e.conn.pos, ends[k])
		if err != nil || e.conn.closed {
			verifReach("dropped")
			return
		}
		verifAssert(e.conn.pos == ends[k], "message-not-consumed-to-its-declared-length:"+cmds[k])
		e.drainOutgoing()
	}
	err := e.node.handleMessage(e.ctx, e.conn)
	verifAssert(err == nil, "ping-after-sequence-fails:"+cmds[count-1])
	gotPong := false
	for _, m := range e.drainOutgoing() {
		if p, ok := m.(*wire.MsgPong); ok {
			gotPong = true
			verifAssert(p.Nonce == nonce, "pong-carries-wrong-nonce")
		}
	}
	verifAssert(gotPong, "ping-after-sequence-not-answered:"+cmds[count-1])
	verifReach("done")
}
